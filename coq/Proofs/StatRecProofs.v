(* StatRecProofs.v — C18: the loop-on-fail file watcher (StatRecorder.check).

   A poll reports a change if and only if, since the previous poll, a watched file was
   created, deleted, or changed in modification time or size; polling twice without such
   a change reports nothing — for ALL root lists (single, several, nested, duplicated)
   and all snapshots.

   Contents
     0. decidable equality on paths / stats
     1. caches as finite maps: keys, wf, same_map, cget/cdel laws
     2. first-occurrence de-duplication (dedup_vis) and `watched`
     3. the loop invariant of check_loop  (check_loop_spec, loop2_spec)
     4. T1 (new cache = watched), T2 (wf invariant), T3 (changed <-> maps differ),
        the created/deleted/modified corollary, T4 (idempotence)
     5. snapshots: fs_wf, the resolution relation nres, soundness of lookup / visit_dir /
        visit_roots, consistency of repeated visits for arbitrary root lists
     6. T5: the filters; hidden directories are never entered
     7. the property in terms of the snapshot itself (no `watched` in the statement)
     8. non-vacuity examples (vm_compute)                                            *)
From XV Require Import Base StatRec.
Open Scope nat_scope.

(* ------------------------------------------------------------------ *)
(* 0. decidable equality                                               *)
(* ------------------------------------------------------------------ *)

Lemma list_eqb_eq {A} (eqb : A -> A -> bool) :
  (forall x y, eqb x y = true <-> x = y) ->
  forall a b, list_eqb eqb a b = true <-> a = b.
Proof.
  intros H a. induction a as [|x a IH]; intros [|y b]; simpl; split; intro E;
    try discriminate; try reflexivity.
  - apply andb_true_iff in E. destruct E as [E1 E2].
    apply H in E1. apply IH in E2. subst. reflexivity.
  - inversion E; subst. apply andb_true_iff. split.
    + apply H. reflexivity.
    + apply IH. reflexivity.
Qed.

Lemma path_eqb_eq (a b : path) : path_eqb a b = true <-> a = b.
Proof. unfold path_eqb. apply list_eqb_eq. apply String.eqb_eq. Qed.

Lemma path_eqb_refl (a : path) : path_eqb a a = true.
Proof. apply path_eqb_eq. reflexivity. Qed.

Lemma path_eqb_neq (a b : path) : a <> b -> path_eqb a b = false.
Proof.
  intros H. destruct (path_eqb a b) eqn:E; [|reflexivity].
  apply path_eqb_eq in E. contradiction.
Qed.

Lemma path_eqb_false (a b : path) : path_eqb a b = false -> a <> b.
Proof. intros E H. subst. rewrite path_eqb_refl in E. discriminate. Qed.

Lemma path_eq_dec (a b : path) : {a = b} + {a <> b}.
Proof.
  destruct (path_eqb a b) eqn:E.
  - left. apply path_eqb_eq. exact E.
  - right. apply path_eqb_false. exact E.
Qed.

Lemma stat_eqb_eq (a b : stat) : stat_eqb a b = true <-> a = b.
Proof.
  destruct a as [m1 s1], b as [m2 s2]. unfold stat_eqb. simpl.
  rewrite andb_true_iff, !Z.eqb_eq. split.
  - intros [-> ->]. reflexivity.
  - intros H. inversion H. auto.
Qed.

Lemma stat_eq_dec (a b : stat) : {a = b} + {a <> b}.
Proof.
  destruct (stat_eqb a b) eqn:E.
  - left. apply stat_eqb_eq. exact E.
  - right. intros H. apply stat_eqb_eq in H. congruence.
Qed.

Lemma ostat_eq_dec (a b : option stat) : {a = b} + {a <> b}.
Proof.
  destruct a as [a|], b as [b|].
  - destruct (stat_eq_dec a b); [left; congruence | right; congruence].
  - right. discriminate.
  - right. discriminate.
  - left. reflexivity.
Qed.

(* ------------------------------------------------------------------ *)
(* 1. caches as finite maps                                            *)
(* ------------------------------------------------------------------ *)

Definition keys (c : cache) : list path := map fst c.

(* no path twice (equality on paths is decidable: path_eqb_eq / path_eq_dec) *)
Definition NoDup_path (l : list path) : Prop := NoDup l.
Definition wf (c : cache) : Prop := NoDup_path (keys c).

(* equal as finite maps *)
Definition same_map (a b : cache) : Prop := forall p, cget p a = cget p b.

(* repeated entries for one path carry one stat *)
Definition consistent (l : list (path * stat)) : Prop :=
  forall p s1 s2, In (p, s1) l -> In (p, s2) l -> s1 = s2.

Lemma wf_nil : wf [].
Proof. constructor. Qed.

Lemma same_map_refl a : same_map a a.
Proof. intros p. reflexivity. Qed.

Lemma same_map_sym a b : same_map a b -> same_map b a.
Proof. intros H p. symmetry. apply H. Qed.

Lemma same_map_trans a b c : same_map a b -> same_map b c -> same_map a c.
Proof. intros H1 H2 p. rewrite H1. apply H2. Qed.

Lemma keys_app a b : keys (a ++ b) = keys a ++ keys b.
Proof. apply map_app. Qed.

Lemma cget_None_iff p c : cget p c = None <-> ~ In p (keys c).
Proof.
  induction c as [|[q s] c IH]; simpl.
  - tauto.
  - destruct (path_eqb p q) eqn:E.
    + apply path_eqb_eq in E. subst. split.
      * discriminate.
      * intros H. exfalso. apply H. left. reflexivity.
    + apply path_eqb_false in E. rewrite IH. split.
      * intros H [H1|H1]; [congruence | contradiction].
      * intros H H1. apply H. right. exact H1.
Qed.

Lemma cget_Some_In p s c : cget p c = Some s -> In (p, s) c.
Proof.
  induction c as [|[q t] c IH]; simpl; [discriminate|].
  destruct (path_eqb p q) eqn:E.
  - apply path_eqb_eq in E. subst. intros H. inversion H. left. reflexivity.
  - intros H. right. apply IH. exact H.
Qed.

Lemma cget_Some_key p s c : cget p c = Some s -> In p (keys c).
Proof. intros H. apply cget_Some_In in H. apply (in_map fst) in H. exact H. Qed.

Lemma In_cget_consistent p s c : consistent c -> In (p, s) c -> cget p c = Some s.
Proof.
  intros C H. destruct (cget p c) as [t|] eqn:E.
  - apply cget_Some_In in E. f_equal. apply (C p); assumption.
  - apply cget_None_iff in E. exfalso. apply E. apply (in_map fst) in H. exact H.
Qed.

Lemma wf_consistent c : wf c -> consistent c.
Proof.
  unfold wf, NoDup_path. induction c as [|[q t] c IH]; intros W p s1 s2 H1 H2.
  - destruct H1.
  - simpl in W. inversion W as [|? ? N W']; subst.
    destruct H1 as [H1|H1], H2 as [H2|H2].
    + congruence.
    + inversion H1; subst. exfalso. apply N. apply (in_map fst) in H2. exact H2.
    + inversion H2; subst. exfalso. apply N. apply (in_map fst) in H1. exact H1.
    + apply (IH W' p); assumption.
Qed.

Lemma In_cget_wf p s c : wf c -> In (p, s) c -> cget p c = Some s.
Proof. intros W. apply In_cget_consistent. apply wf_consistent. exact W. Qed.

Lemma cget_app p a b :
  cget p (a ++ b) = match cget p a with Some s => Some s | None => cget p b end.
Proof.
  induction a as [|[q t] a IH]; simpl; [reflexivity|].
  destruct (path_eqb p q); [reflexivity | exact IH].
Qed.

Lemma cget_cdel_neq p q c : q <> p -> cget q (cdel p c) = cget q c.
Proof.
  intros N. induction c as [|[r t] c IH]; simpl; [reflexivity|].
  destruct (path_eqb p r) eqn:E.
  - apply path_eqb_eq in E. subst r. rewrite (path_eqb_neq q p N). reflexivity.
  - simpl. rewrite IH. reflexivity.
Qed.

Lemma keys_cdel_incl p c : incl (keys (cdel p c)) (keys c).
Proof.
  induction c as [|[r t] c IH]; simpl; [apply incl_refl|].
  destruct (path_eqb p r).
  - apply incl_tl. apply incl_refl.
  - simpl. intros x [H|H]; [left; exact H | right; apply IH; exact H].
Qed.

Lemma wf_cdel p c : wf c -> wf (cdel p c).
Proof.
  unfold wf, NoDup_path. induction c as [|[r t] c IH]; simpl; intros W; [exact W|].
  inversion W as [|? ? N W']; subst.
  destruct (path_eqb p r).
  - exact W'.
  - simpl. constructor.
    + intros H. apply N. apply (keys_cdel_incl p c). exact H.
    + apply IH. exact W'.
Qed.

Lemma cget_cdel_eq p c : wf c -> cget p (cdel p c) = None.
Proof.
  unfold wf, NoDup_path. induction c as [|[r t] c IH]; simpl; intros W; [reflexivity|].
  inversion W as [|? ? N W']; subst.
  destruct (path_eqb p r) eqn:E.
  - apply path_eqb_eq in E. subst r. apply cget_None_iff. exact N.
  - simpl. rewrite E. apply IH. exact W'.
Qed.

Lemma same_map_nil_r c : same_map c [] <-> c = [].
Proof.
  split.
  - intros H. destruct c as [|[q t] c]; [reflexivity|].
    specialize (H q). simpl in H. rewrite path_eqb_refl in H. discriminate.
  - intros ->. apply same_map_refl.
Qed.

(* ------------------------------------------------------------------ *)
(* 2. first-occurrence de-duplication and `watched`                    *)
(* ------------------------------------------------------------------ *)

Definition seenb (p : path) (seen : list path) : bool := existsb (path_eqb p) seen.

Lemma seenb_In p l : seenb p l = true <-> In p l.
Proof.
  unfold seenb. rewrite existsb_exists. split.
  - intros [x [H E]]. apply path_eqb_eq in E. subst. exact H.
  - intros H. exists p. split; [exact H | apply path_eqb_refl].
Qed.

Lemma seenb_false p l : seenb p l = false <-> ~ In p l.
Proof.
  rewrite <- seenb_In. destruct (seenb p l); split; intros H; try congruence.
Qed.

Lemma seenb_app p a b : seenb p (a ++ b) = seenb p a || seenb p b.
Proof. unfold seenb. apply existsb_app. Qed.

Lemma cget_seenb p c : cget p c = None <-> seenb p (keys c) = false.
Proof. rewrite cget_None_iff, seenb_false. tauto. Qed.

(* left-to-right, keep the first (path, stat) of every path not in [seen] *)
Fixpoint dedup_vis (seen : list path) (l : list (path * stat)) : cache :=
  match l with
  | [] => []
  | (p, st) :: r =>
      if seenb p seen then dedup_vis seen r
      else (p, st) :: dedup_vis (seen ++ [p]) r
  end.

(* the watched files of a snapshot: first visit of every path *)
Definition watched (fs : fsnode) (roots : list path) : cache :=
  dedup_vis [] (visit_roots fs roots).

Lemma dedup_vis_keys seen l p :
  In p (keys (dedup_vis seen l)) -> ~ In p seen /\ In p (keys l).
Proof.
  revert seen. induction l as [|[q t] l IH]; intros seen; simpl.
  - intros [].
  - destruct (seenb q seen) eqn:E.
    + intros H. apply IH in H. tauto.
    + simpl. intros [H|H].
      * subst q. apply seenb_false in E. tauto.
      * apply IH in H. destruct H as [H1 H2]. split; [|tauto].
        intros H3. apply H1. apply in_or_app. left. exact H3.
Qed.

Lemma dedup_vis_wf seen l : wf (dedup_vis seen l).
Proof.
  unfold wf, NoDup_path. revert seen. induction l as [|[q t] l IH]; intros seen; simpl.
  - constructor.
  - destruct (seenb q seen).
    + apply IH.
    + simpl. constructor.
      * intros H. apply dedup_vis_keys in H. destruct H as [H _].
        apply H. apply in_or_app. right. left. reflexivity.
      * apply IH.
Qed.

(* de-duplication keeps the FIRST stat of every path: as a map it is the list itself *)
Lemma cget_dedup_vis seen l p :
  cget p (dedup_vis seen l) = if seenb p seen then None else cget p l.
Proof.
  revert seen. induction l as [|[q t] l IH]; intros seen; simpl.
  - destruct (seenb p seen); reflexivity.
  - destruct (seenb q seen) eqn:E.
    + rewrite IH. destruct (seenb p seen) eqn:E2; [reflexivity|].
      destruct (path_eqb p q) eqn:E3; [|reflexivity].
      apply path_eqb_eq in E3. subst. congruence.
    + simpl. destruct (path_eqb p q) eqn:E3.
      * apply path_eqb_eq in E3. subst. rewrite E. reflexivity.
      * rewrite IH, seenb_app. simpl. rewrite E3. rewrite !orb_false_r. reflexivity.
Qed.

Lemma watched_wf fs roots : wf (watched fs roots).
Proof. apply dedup_vis_wf. Qed.

Lemma watched_same_map fs roots : same_map (watched fs roots) (visit_roots fs roots).
Proof. intros p. unfold watched. rewrite cget_dedup_vis. reflexivity. Qed.

Lemma watched_sound fs roots p s :
  cget p (watched fs roots) = Some s -> In (p, s) (visit_roots fs roots).
Proof. rewrite watched_same_map. apply cget_Some_In. Qed.

Lemma watched_complete fs roots p s :
  consistent (visit_roots fs roots) ->
  In (p, s) (visit_roots fs roots) -> cget p (watched fs roots) = Some s.
Proof. intros C H. rewrite watched_same_map. apply In_cget_consistent; assumption. Qed.

Lemma watched_keys fs roots p :
  In p (keys (watched fs roots)) <-> In p (keys (visit_roots fs roots)).
Proof.
  split; intros H.
  - destruct (cget p (visit_roots fs roots)) eqn:E.
    + apply cget_Some_key in E. exact E.
    + rewrite <- watched_same_map in E. apply cget_None_iff in E. contradiction.
  - destruct (cget p (watched fs roots)) eqn:E.
    + apply cget_Some_key in E. exact E.
    + rewrite watched_same_map in E. apply cget_None_iff in E. contradiction.
Qed.

(* ------------------------------------------------------------------ *)
(* 3. the loop invariant                                               *)
(* ------------------------------------------------------------------ *)

(* the loop restricted to the entries that are actually processed
   (first occurrences, not yet in [new]): it only touches [old] and the flag *)
Fixpoint loop2 (d : list (path * stat)) (old : cache) (changed : bool) : cache * bool :=
  match d with
  | [] => (old, changed)
  | (p, st) :: r =>
      match cget p old with
      | Some ost => loop2 r (cdel p old) (changed || negb (stat_eqb ost st))
      | None => loop2 r old true
      end
  end.

(* KEY LEMMA (part 1): check_loop = loop2 over the first occurrences; the new cache is
   [new] followed by the first occurrences of the visited paths not already in [new] *)
Lemma check_loop_spec visited : forall old new changed,
  check_loop visited old new changed =
  (fst (loop2 (dedup_vis (keys new) visited) old changed),
   new ++ dedup_vis (keys new) visited,
   snd (loop2 (dedup_vis (keys new) visited) old changed)).
Proof.
  induction visited as [|[p st] r IH]; intros old new changed; simpl.
  - rewrite app_nil_r. reflexivity.
  - destruct (cget p new) as [x|] eqn:E.
    + assert (S : seenb p (keys new) = true).
      { destruct (seenb p (keys new)) eqn:E2; [reflexivity|].
        apply cget_seenb in E2. congruence. }
      rewrite S. apply IH.
    + assert (S : seenb p (keys new) = false) by (apply cget_seenb; exact E).
      rewrite S. simpl.
      destruct (cget p old) as [ost|] eqn:E2; rewrite IH, keys_app; simpl;
        rewrite <- app_assoc; reflexivity.
Qed.

Lemma loop2_true d : forall old, snd (loop2 d old true) = true.
Proof.
  induction d as [|[p st] r IH]; intros old; simpl; [reflexivity|].
  destruct (cget p old); apply IH.
Qed.

(* final old = old minus the processed keys *)
Lemma loop2_old d : forall old changed q,
  wf old ->
  cget q (fst (loop2 d old changed)) = if seenb q (keys d) then None else cget q old.
Proof.
  induction d as [|[p st] r IH]; intros old changed q W; simpl; [reflexivity|].
  destruct (cget p old) as [ost|] eqn:Ep.
  - rewrite (IH _ _ _ (wf_cdel p old W)).
    destruct (path_eqb q p) eqn:E; simpl.
    + apply path_eqb_eq in E. subst q. rewrite (cget_cdel_eq p old W).
      destruct (seenb p (keys r)); reflexivity.
    + apply path_eqb_false in E. rewrite (cget_cdel_neq p q old E). reflexivity.
  - rewrite (IH _ _ _ W).
    destruct (path_eqb q p) eqn:E; simpl; [|reflexivity].
    apply path_eqb_eq in E. subst q. rewrite Ep.
    destruct (seenb p (keys r)); reflexivity.
Qed.

(* KEY LEMMA (part 2): with distinct processed keys and a duplicate-free old cache, the
   loop ends with "nothing changed and nothing left over" exactly when the old cache and
   the processed entries are the same finite map *)
Lemma loop2_spec d : forall old changed,
  wf old -> wf d ->
  (snd (loop2 d old changed) = false /\ fst (loop2 d old changed) = []
   <-> changed = false /\ same_map old d).
Proof.
  induction d as [|[p st] r IH]; intros old changed Wo Wd; simpl.
  - rewrite same_map_nil_r. tauto.
  - unfold wf, NoDup_path in Wd. simpl in Wd. inversion Wd as [|? ? N Wr]; subst.
    destruct (cget p old) as [ost|] eqn:E.
    + rewrite (IH (cdel p old) _ (wf_cdel p old Wo) Wr). split.
      * intros [H1 H2]. apply orb_false_iff in H1. destruct H1 as [H1 H3].
        apply negb_false_iff in H3. apply stat_eqb_eq in H3. subst ost.
        split; [exact H1|]. intros q. simpl.
        destruct (path_eqb q p) eqn:E2.
        -- apply path_eqb_eq in E2. subst q. exact E.
        -- apply path_eqb_false in E2. rewrite <- H2. symmetry.
           apply cget_cdel_neq. exact E2.
      * intros [H1 H2]. subst changed.
        pose proof (H2 p) as Hp. simpl in Hp. rewrite path_eqb_refl, E in Hp.
        inversion Hp; subst ost. split.
        -- simpl. apply negb_false_iff. apply stat_eqb_eq. reflexivity.
        -- intros q. destruct (path_eq_dec q p) as [->|Nq].
           ++ rewrite (cget_cdel_eq p old Wo). symmetry. apply cget_None_iff. exact N.
           ++ rewrite (cget_cdel_neq p q old Nq). rewrite (H2 q). simpl.
              rewrite (path_eqb_neq q p Nq). reflexivity.
    + split.
      * intros [H _]. rewrite loop2_true in H. discriminate.
      * intros [_ H]. specialize (H p). simpl in H. rewrite path_eqb_refl, E in H.
        discriminate.
Qed.

(* what check computes, with the loop unfolded *)
Lemma check_unfold c fs roots :
  check c fs roots =
  (snd (loop2 (watched fs roots) c false)
   || match fst (loop2 (watched fs roots) c false) with [] => false | _ => true end,
   watched fs roots).
Proof.
  unfold check. rewrite check_loop_spec. simpl. reflexivity.
Qed.

(* ------------------------------------------------------------------ *)
(* 4. main theorems                                                    *)
(* ------------------------------------------------------------------ *)

(* T1: the new cache is exactly the watched files (first visit of each path), as a LIST.
   (It does not even depend on the old cache.) *)
Theorem T1_new_cache c fs roots : snd (check c fs roots) = watched fs roots.
Proof. rewrite check_unfold. reflexivity. Qed.
Print Assumptions T1_new_cache.

Corollary T1_new_cache_wf c fs roots : wf c -> snd (check c fs roots) = watched fs roots.
Proof. intros _. apply T1_new_cache. Qed.

(* T2: the cache never holds a path twice *)
Theorem T2_wf_invariant c fs roots : wf (snd (check c fs roots)).
Proof. rewrite T1_new_cache. apply watched_wf. Qed.
Print Assumptions T2_wf_invariant.

(* ... hence wf holds along every sequence of polls started from a wf (e.g. empty) cache *)
Lemma polls_cons c roots fs r :
  polls c roots (fs :: r) =
  (fst (check c fs roots) :: fst (polls (snd (check c fs roots)) roots r),
   snd (polls (snd (check c fs roots)) roots r)).
Proof.
  simpl. destruct (check c fs roots) as [ch c']. simpl.
  destruct (polls c' roots r) as [rest cf]. reflexivity.
Qed.

Theorem T2_polls_wf snaps : forall c roots, wf c -> wf (snd (polls c roots snaps)).
Proof.
  induction snaps as [|fs r IH]; intros c roots W.
  - exact W.
  - rewrite polls_cons. simpl. apply IH. apply T2_wf_invariant.
Qed.
Print Assumptions T2_polls_wf.

(* T3, the heart: no change reported  <->  the old cache IS the set of watched files
   (every watched file is in the cache with equal (mtime, size); the cache holds nothing else) *)
Theorem T3_unchanged_iff c fs roots :
  wf c -> (fst (check c fs roots) = false <-> same_map c (watched fs roots)).
Proof.
  intros W. rewrite check_unfold. simpl.
  pose proof (loop2_spec (watched fs roots) c false W (watched_wf fs roots)) as S.
  split.
  - intros H. apply orb_false_iff in H. destruct H as [H1 H2].
    apply S. split; [exact H1|].
    destruct (fst (loop2 (watched fs roots) c false)); [reflexivity | discriminate].
  - intros H. destruct S as [_ S]. destruct (S (conj eq_refl H)) as [H1 H2].
    rewrite H1, H2. reflexivity.
Qed.
Print Assumptions T3_unchanged_iff.

(* a finite search: two caches differ as maps iff they differ at one of their keys *)
Lemma same_map_dec_on (a b : cache) (l : list path) :
  (forall p, In p l -> cget p a = cget p b) \/ (exists p, cget p a <> cget p b).
Proof.
  induction l as [|q l IH].
  - left. intros p [].
  - destruct IH as [IH|IH]; [|right; exact IH].
    destruct (ostat_eq_dec (cget q a) (cget q b)) as [E|E].
    + left. intros p [H|H]; [subst; exact E | apply IH; exact H].
    + right. exists q. exact E.
Qed.

Lemma same_map_dec (a b : cache) : same_map a b \/ (exists p, cget p a <> cget p b).
Proof.
  destruct (same_map_dec_on a b (keys a ++ keys b)) as [H|H]; [|right; exact H].
  left. intros p.
  destruct (cget p a) as [x|] eqn:Ea.
  - rewrite <- Ea. apply H. apply in_or_app. left. apply (cget_Some_key p x). exact Ea.
  - destruct (cget p b) as [y|] eqn:Eb; [|reflexivity].
    rewrite <- Ea, <- Eb. apply H. apply in_or_app. right. apply (cget_Some_key p y). exact Eb.
Qed.

(* T3 spelled out: a change is reported iff a watched file was created, deleted
   (or became hidden / unwatched), or changed in mtime or size *)
Theorem T3_changed_iff c fs roots :
  wf c ->
  (fst (check c fs roots) = true <->
     (exists p s, cget p (watched fs roots) = Some s /\ cget p c = None)          (* created *)
  \/ (exists p s, cget p c = Some s /\ cget p (watched fs roots) = None)          (* deleted *)
  \/ (exists p s s', cget p c = Some s /\ cget p (watched fs roots) = Some s' /\ s <> s')). (* modified *)
Proof.
  intros W. pose proof (T3_unchanged_iff c fs roots W) as T. split.
  - intros H. destruct (same_map_dec c (watched fs roots)) as [S|[p N]].
    + apply T in S. congruence.
    + destruct (cget p c) as [s|] eqn:Ec; destruct (cget p (watched fs roots)) as [s'|] eqn:Ew.
      * right. right. exists p, s, s'. repeat split; try assumption. congruence.
      * right. left. exists p, s. split; assumption.
      * left. exists p, s'. split; assumption.
      * congruence.
  - intros H. destruct (fst (check c fs roots)) eqn:E; [reflexivity|]. exfalso.
    destruct T as [T _]. specialize (T eq_refl).
    destruct H as [(p & s & H1 & H2)|[(p & s & H1 & H2)|(p & s & s' & H1 & H2 & H3)]];
      specialize (T p); congruence.
Qed.
Print Assumptions T3_changed_iff.

(* T4: idempotence — a second poll on the same snapshot reports nothing,
   for arbitrary root lists, arbitrary snapshots, arbitrary previous cache.
   (This was FALSE before the repair of the real code for duplicated / nested roots.) *)
Theorem T4_idempotent c fs roots :
  fst (check (snd (check c fs roots)) fs roots) = false.
Proof.
  apply T3_unchanged_iff.
  - apply T2_wf_invariant.
  - rewrite T1_new_cache. apply same_map_refl.
Qed.
Print Assumptions T4_idempotent.

(* the form asked for (the hypotheses are not needed) *)
Corollary T4_idempotent' c fs roots :
  wf c -> consistent (visit_roots fs roots) ->
  fst (check (snd (check c fs roots)) fs roots) = false.
Proof. intros _ _. apply T4_idempotent. Qed.

(* and the cache is a fixed point *)
Corollary T4_fixed_point c fs roots :
  check (snd (check c fs roots)) fs roots = (false, snd (check c fs roots)).
Proof.
  rewrite (surjective_pairing (check (snd (check c fs roots)) fs roots)).
  rewrite T4_idempotent, !T1_new_cache. reflexivity.
Qed.

(* in terms of `polls`: polling the same snapshot twice *)
Corollary T4_polls c fs roots :
  exists b, fst (polls c roots [fs; fs]) = [b; false].
Proof.
  exists (fst (check c fs roots)). rewrite !polls_cons. simpl.
  rewrite T4_idempotent. reflexivity.
Qed.

(* more generally: any poll whose snapshot has the same watched files as the previous
   one reports nothing *)
Theorem T4_same_watched c fs fs' roots :
  same_map (watched fs roots) (watched fs' roots) ->
  fst (check (snd (check c fs roots)) fs' roots) = false.
Proof.
  intros H. apply T3_unchanged_iff.
  - apply T2_wf_invariant.
  - rewrite T1_new_cache. exact H.
Qed.
Print Assumptions T4_same_watched.

(* the changed flag, explicitly: some processed path was absent from old or present with
   a different stat *)
Definition differs (old : cache) (e : path * stat) : bool :=
  match cget (fst e) old with
  | Some ost => negb (stat_eqb ost (snd e))
  | None => true
  end.

Lemma existsb_differs_cdel p old r :
  ~ In p (keys r) -> existsb (differs (cdel p old)) r = existsb (differs old) r.
Proof.
  induction r as [|[q t] r IH]; simpl; intros N; [reflexivity|].
  rewrite IH by tauto. f_equal. unfold differs. simpl.
  rewrite cget_cdel_neq; [reflexivity|]. intros E. apply N. left. exact E.
Qed.

Lemma loop2_changed d : forall old changed,
  wf d -> snd (loop2 d old changed) = changed || existsb (differs old) d.
Proof.
  induction d as [|[p st] r IH]; intros old changed W; simpl.
  - rewrite orb_false_r. reflexivity.
  - unfold wf, NoDup_path in W. simpl in W. inversion W as [|? ? N Wr]; subst.
    unfold differs at 1. simpl. destruct (cget p old) as [ost|] eqn:E.
    + rewrite (IH _ _ Wr), existsb_differs_cdel by exact N. rewrite orb_assoc. reflexivity.
    + rewrite loop2_true. rewrite orb_true_r. reflexivity.
Qed.

Lemma NoDup_app_disjoint {A} (a b : list A) :
  NoDup a -> NoDup b -> (forall p, In p b -> ~ In p a) -> NoDup (a ++ b).
Proof.
  intros Wa Wb Dj. induction a as [|x a IH]; simpl; [exact Wb|].
  inversion Wa as [|? ? N Wl]; subst. constructor.
  - intros H. apply in_app_or in H. destruct H as [H|H]; [contradiction|].
    apply (Dj x H). left. reflexivity.
  - apply IH; [exact Wl|]. intros p H H2. apply (Dj p H). right. exact H2.
Qed.

(* KEY LEMMA, all three parts together, in the form requested *)
Theorem check_loop_invariant visited old new changed :
  wf old ->
  let d := dedup_vis (keys new) visited in
  let '(old', new', changed') := check_loop visited old new changed in
     new' = new ++ d
  /\ (forall q, cget q old' = if seenb q (keys d) then None else cget q old)
  /\ changed' = changed || existsb (differs old) d
  /\ wf old'
  /\ (wf new -> wf new').
Proof.
  intros W d. rewrite check_loop_spec. fold d.
  split; [reflexivity|]. split; [|split; [|split]].
  - intros q. apply loop2_old. exact W.
  - apply loop2_changed. apply dedup_vis_wf.
  - clear -W. revert old changed W. generalize d as dd.
    induction dd as [|[p st] r IH]; intros old changed W; simpl; [exact W|].
    destruct (cget p old); apply IH; [apply wf_cdel|]; exact W.
  - intros Wn. unfold wf, NoDup_path. rewrite keys_app.
    unfold wf, NoDup_path in Wn.
    assert (Wd : NoDup (keys d)) by apply dedup_vis_wf.
    assert (Dj : forall p, In p (keys d) -> ~ In p (keys new)).
    { intros p H. apply dedup_vis_keys in H. tauto. }
    apply NoDup_app_disjoint; assumption.
Qed.
Print Assumptions check_loop_invariant.

(* ------------------------------------------------------------------ *)
(* 5. snapshots                                                        *)
(* ------------------------------------------------------------------ *)

(* in every directory the children have pairwise distinct names *)
Inductive fs_wf : fsnode -> Prop :=
| fs_wf_file n m sz : fs_wf (FFile n m sz)
| fs_wf_dir n ch :
    NoDup (map fs_name ch) -> (forall y, In y ch -> fs_wf y) -> fs_wf (FDir n ch).

(* [nres x p s]: below directory x, the relative path p names a regular file with stat s *)
Inductive nres : fsnode -> path -> stat -> Prop :=
| nres_file d ch n m sz :
    In (FFile n m sz) ch -> nres (FDir d ch) [n] (m, sz)
| nres_dir d ch y rest s :
    In y ch -> nres y rest s -> nres (FDir d ch) (fs_name y :: rest) s.

Lemma nres_nil x s : ~ nres x [] s.
Proof. intros H. inversion H. Qed.

Lemma nres_rename d d' ch p s : nres (FDir d ch) p s -> nres (FDir d' ch) p s.
Proof. intros H. inversion H; subst; constructor; assumption. Qed.

Lemma names_inj ch x y :
  NoDup (map fs_name ch) -> In x ch -> In y ch -> fs_name x = fs_name y -> x = y.
Proof.
  induction ch as [|a ch IH]; simpl; intros N Hx Hy E; [destruct Hx|].
  inversion N as [|? ? Na Nc]; subst.
  destruct Hx as [Hx|Hx], Hy as [Hy|Hy].
  - congruence.
  - subst a. exfalso. apply Na. rewrite E. apply in_map. exact Hy.
  - subst a. exfalso. apply Na. rewrite <- E. apply in_map. exact Hx.
  - apply IH; assumption.
Qed.

(* in a well-formed snapshot a path names at most one file, with one stat *)
Lemma nres_functional x p s1 :
  nres x p s1 -> forall s2, fs_wf x -> nres x p s2 -> s1 = s2.
Proof.
  induction 1 as [d ch n m sz Hin | d ch y rest s Hin Hy IH]; intros s2 W H2;
    inversion W as [|? ? Nd Wc]; subst.
  - inversion H2 as [? ? ? m2 sz2 Hin2 | ? ? y2 rest2 ? Hin2 Hy2]; subst.
    + pose proof (names_inj ch _ _ Nd Hin Hin2 eq_refl) as E. inversion E. reflexivity.
    + exfalso. apply (nres_nil _ _ Hy2).
  - inversion H2 as [? ? n2 m2 sz2 Hin2 | ? ? y2 rest2 ? Hin2 Hy2 E1]; subst.
    + exfalso. apply (nres_nil _ _ Hy).
    + assert (y = y2) by (apply (names_inj ch); auto). subst y2.
      apply IH; [apply Wc; exact Hin | exact Hy2].
Qed.

Definition not_dot (n : string) : Prop := starts_with_dot n = false.

Lemma last_cons_ne {A} (a : A) l dflt : l <> [] -> last (a :: l) dflt = last l dflt.
Proof. destruct l; [congruence | reflexivity]. Qed.

(* soundness of visit_dir (also T5: hidden directories are never entered) *)
Lemma visit_dir_sound fuel : forall prefix ch p s d,
  In (p, s) (visit_dir fuel prefix ch) ->
  exists rest, p = prefix ++ rest /\ nres (FDir d ch) rest s /\ rest <> [] /\
               Forall not_dot rest /\ is_pyc (last rest ""%string) = false.
Proof.
  induction fuel as [|f IH]; intros prefix ch p s d H; simpl in H; [destruct H|].
  apply in_app_or in H. destruct H as [H|H]; apply in_flat_map in H;
    destruct H as [x [Hx H]]; destruct x as [n m sz | n ch']; try (destruct H; fail).
  - destruct (fil_name n) eqn:F; [|destruct H].
    destruct H as [H|[]]. inversion H; subst.
    unfold fil_name in F. apply andb_true_iff in F. destruct F as [F1 F2].
    apply negb_true_iff in F1. apply negb_true_iff in F2.
    exists [n]. split; [reflexivity|]. split; [constructor; exact Hx|].
    split; [discriminate|]. split; [constructor; [exact F1 | constructor] | exact F2].
  - destruct (rec_name n) eqn:R; [|destruct H].
    apply (IH _ _ _ _ n) in H. destruct H as (rest & -> & N & NE & F & P).
    unfold rec_name in R. apply negb_true_iff in R.
    exists (n :: rest). split; [rewrite <- app_assoc; reflexivity|].
    split; [|split; [discriminate|split]].
    + change (n :: rest) with (fs_name (FDir n ch') :: rest). constructor; assumption.
    + constructor; assumption.
    + rewrite last_cons_ne by exact NE. exact P.
Qed.

(* soundness of lookup: the directory found is the directory the root path names *)
Lemma lookup_sound fuel : forall x r ch,
  lookup fuel x r = Some ch ->
  forall d rest s, nres (FDir d ch) rest s -> nres x (r ++ rest) s.
Proof.
  induction fuel as [|f IH]; intros x r ch H d rest s N; simpl in H; [discriminate|].
  destruct x as [n m sz | n ch0]; [discriminate|].
  destruct r as [|q r].
  - inversion H; subst. simpl. apply (nres_rename d). exact N.
  - destruct (find (fun y => String.eqb (fs_name y) q) ch0) as [y|] eqn:F; [|discriminate].
    apply find_some in F. destruct F as [Hin E]. apply String.eqb_eq in E. subst q.
    simpl. constructor; [exact Hin|]. apply (IH _ _ _ H d). exact N.
Qed.

(* every visited pair is a file of the snapshot, found below one of the roots, and no
   component below the root is hidden *)
Lemma visit_roots_sound fs roots p s :
  In (p, s) (visit_roots fs roots) ->
  nres fs p s /\
  exists r rest, In r roots /\ p = r ++ rest /\ rest <> [] /\
                 Forall not_dot rest /\ is_pyc (last rest ""%string) = false.
Proof.
  unfold visit_roots. intros H. apply in_flat_map in H. destruct H as [r [Hr H]].
  destruct (lookup (S (length r)) fs r) as [ch|] eqn:L; [|destruct H].
  apply (visit_dir_sound _ _ _ _ _ ""%string) in H.
  destruct H as (rest & -> & N & NE & F & P). split.
  - apply (lookup_sound _ _ _ _ L _ _ _ N).
  - exists r, rest. auto.
Qed.

(* repeated visits of one path within one poll carry the same stat — for ALL root lists *)
Theorem visit_roots_consistent fs roots :
  fs_wf fs -> consistent (visit_roots fs roots).
Proof.
  intros W p s1 s2 H1 H2.
  apply visit_roots_sound in H1. apply visit_roots_sound in H2.
  destruct H1 as [H1 _], H2 as [H2 _]. apply (nres_functional fs p s1 H1 s2 W H2).
Qed.
Print Assumptions visit_roots_consistent.

Corollary visit_roots_consistent_single fs r : fs_wf fs -> consistent (visit_roots fs [r]).
Proof. apply visit_roots_consistent. Qed.
Corollary visit_roots_consistent_dup fs r : fs_wf fs -> consistent (visit_roots fs [r; r]).
Proof. apply visit_roots_consistent. Qed.

(* hence, on a real snapshot, `watched` holds exactly the visited pairs *)
Theorem watched_iff_visited fs roots p s :
  fs_wf fs -> (cget p (watched fs roots) = Some s <-> In (p, s) (visit_roots fs roots)).
Proof.
  intros W. split.
  - apply watched_sound.
  - apply watched_complete. apply visit_roots_consistent. exact W.
Qed.
Print Assumptions watched_iff_visited.

(* ---- completeness of the visit: every non-hidden, non-.pyc file below a root is visited ---- *)

Lemma depth_child y ch :
  In y ch -> depth y <= fold_right (fun z acc => Nat.max (depth z) acc) 0 ch.
Proof.
  induction ch as [|a ch IH]; simpl; intros H; [destruct H|].
  destruct H as [->|H]; [lia|]. apply IH in H. lia.
Qed.

Lemma nres_depth x p s : nres x p s -> length p < depth x.
Proof.
  induction 1 as [d ch n m sz Hin | d ch y rest s Hin Hy IH]; simpl.
  - apply depth_child in Hin. simpl in Hin. lia.
  - apply depth_child in Hin. lia.
Qed.

Lemma visit_dir_complete fuel : forall prefix ch rest s d,
  nres (FDir d ch) rest s -> Forall not_dot rest -> is_pyc (last rest ""%string) = false ->
  length rest <= fuel ->
  In (prefix ++ rest, s) (visit_dir fuel prefix ch).
Proof.
  induction fuel as [|f IH]; intros prefix ch rest s d N F P L.
  - destruct rest; [exfalso; apply (nres_nil _ _ N) | simpl in L; lia].
  - simpl. apply in_or_app.
    inversion N as [? ? n m sz Hin | ? ? y rest' ? Hin Hy]; subst.
    + left. apply in_flat_map. exists (FFile n m sz). split; [exact Hin|].
      inversion F as [|? ? F1 _]; subst. simpl in P.
      unfold fil_name. unfold not_dot in F1. rewrite F1, P. simpl. left. reflexivity.
    + right. apply in_flat_map. exists y. split; [exact Hin|].
      destruct y as [n m sz | n ch']; [inversion Hy|].
      assert (NE : rest' <> []) by (intros ->; apply (nres_nil _ _ Hy)).
      rewrite last_cons_ne in P by exact NE.
      simpl fs_name in *. cbv beta iota.
      inversion F as [|? ? F1 F2]; subst. unfold rec_name. unfold not_dot in F1.
      rewrite F1. simpl negb. cbv iota.
      replace (prefix ++ n :: rest') with ((prefix ++ [n]) ++ rest')
        by (rewrite <- app_assoc; reflexivity).
      apply (IH _ _ _ _ n); [exact Hy | exact F2 | exact P | simpl in L; lia].
Qed.

(* the visited pairs, characterised without visit_dir: below a root directory, a regular
   file whose components (below the root) are not hidden and whose name is not *.pyc *)
Theorem visit_roots_iff fs roots p s :
  In (p, s) (visit_roots fs roots) <->
  exists r rest ch, In r roots /\ p = r ++ rest /\
    lookup (S (length r)) fs r = Some ch /\
    nres (FDir ""%string ch) rest s /\
    Forall not_dot rest /\ is_pyc (last rest ""%string) = false.
Proof.
  unfold visit_roots. split.
  - intros H. apply in_flat_map in H. destruct H as [r [Hr H]].
    destruct (lookup (S (length r)) fs r) as [ch|] eqn:L; [|destruct H].
    apply (visit_dir_sound _ _ _ _ _ ""%string) in H.
    destruct H as (rest & -> & N & NE & F & P).
    exists r, rest, ch. split; [exact Hr|]. split; [reflexivity|]. split; [exact L|]. split; [exact N|]. split; assumption.
  - intros (r & rest & ch & Hr & -> & L & N & F & P).
    apply in_flat_map. exists r. split; [exact Hr|]. rewrite L.
    apply (visit_dir_complete _ _ _ _ _ ""%string); try assumption.
    pose proof (lookup_sound _ _ _ _ L _ _ _ N) as N2. apply nres_depth in N2.
    rewrite app_length in N2. lia.
Qed.
Print Assumptions visit_roots_iff.

(* ------------------------------------------------------------------ *)
(* 6. T5: filters                                                      *)
(* ------------------------------------------------------------------ *)

Theorem T5_fil_name s :
  fil_name s = true <-> (starts_with_dot s = false /\ is_pyc s = false).
Proof.
  unfold fil_name. rewrite andb_true_iff, !negb_true_iff. tauto.
Qed.

Theorem T5_rec_name s : rec_name s = true <-> starts_with_dot s = false.
Proof. unfold rec_name. apply negb_true_iff. Qed.

(* hidden directories are never entered, hidden files and *.pyc files never reported *)
Theorem T5_visit_dir f prefix ch p st :
  In (p, st) (visit_dir f prefix ch) ->
  exists rest, p = prefix ++ rest /\ rest <> [] /\
               Forall (fun n => starts_with_dot n = false) rest /\
               is_pyc (last rest ""%string) = false.
Proof.
  intros H. apply (visit_dir_sound _ _ _ _ _ ""%string) in H.
  destruct H as (rest & E & _ & NE & F & P). exists rest. auto.
Qed.
Print Assumptions T5_visit_dir.

Theorem T5_visit_roots fs roots p st :
  In (p, st) (visit_roots fs roots) ->
  exists r rest, In r roots /\ p = r ++ rest /\ rest <> [] /\
               Forall (fun n => starts_with_dot n = false) rest /\
               is_pyc (last rest ""%string) = false.
Proof. intros H. apply visit_roots_sound in H. apply H. Qed.

(* ------------------------------------------------------------------ *)
(* 7. C18 in terms of the snapshot itself                              *)
(* ------------------------------------------------------------------ *)

(* no change reported iff the cache holds exactly the (path, stat) pairs now visited *)
Theorem C18_unchanged_iff c fs roots :
  wf c -> fs_wf fs ->
  (fst (check c fs roots) = false <->
   forall p s, cget p c = Some s <-> In (p, s) (visit_roots fs roots)).
Proof.
  intros W F. rewrite (T3_unchanged_iff c fs roots W). split.
  - intros S p s. rewrite (S p). apply watched_iff_visited. exact F.
  - intros H p.
    destruct (cget p c) as [s|] eqn:Ec.
    + symmetry. apply watched_iff_visited; [exact F|]. apply H. exact Ec.
    + destruct (cget p (watched fs roots)) as [s'|] eqn:Ew; [|reflexivity].
      apply watched_iff_visited in Ew; [|exact F]. apply H in Ew. congruence.
Qed.
Print Assumptions C18_unchanged_iff.

(* a change is reported iff a watched file was created, deleted, or modified *)
Theorem C18_changed_iff c fs roots :
  wf c -> fs_wf fs ->
  (fst (check c fs roots) = true <->
     (exists p s, In (p, s) (visit_roots fs roots) /\ cget p c = None)                   (* created *)
  \/ (exists p s, cget p c = Some s /\ ~ In p (keys (visit_roots fs roots)))             (* deleted *)
  \/ (exists p s s', cget p c = Some s /\ In (p, s') (visit_roots fs roots) /\ s <> s')). (* modified *)
Proof.
  intros W F. rewrite (T3_changed_iff c fs roots W).
  assert (K : forall p, cget p (watched fs roots) = None <-> ~ In p (keys (visit_roots fs roots))).
  { intros p. rewrite cget_None_iff, watched_keys. tauto. }
  split.
  - intros [(p & s & H1 & H2)|[(p & s & H1 & H2)|(p & s & s' & H1 & H2 & H3)]].
    + left. exists p, s. split; [apply watched_iff_visited; assumption | exact H2].
    + right. left. exists p, s. split; [exact H1 | apply K; exact H2].
    + right. right. exists p, s, s'. split; [exact H1|].
      split; [apply watched_iff_visited; assumption | exact H3].
  - intros [(p & s & H1 & H2)|[(p & s & H1 & H2)|(p & s & s' & H1 & H2 & H3)]].
    + left. exists p, s. split; [apply watched_iff_visited; assumption | exact H2].
    + right. left. exists p, s. split; [exact H1 | apply K; exact H2].
    + right. right. exists p, s, s'. split; [exact H1|].
      split; [apply watched_iff_visited; assumption | exact H3].
Qed.
Print Assumptions C18_changed_iff.

(* over a whole run from the empty cache: the k-th flag (k >= 1) is false exactly when the
   watched files of snapshot k equal those of snapshot k-1 *)
Theorem C18_polls_step c roots fs1 fs2 :
  nth 1 (fst (polls c roots [fs1; fs2])) true = false <->
  same_map (watched fs1 roots) (watched fs2 roots).
Proof.
  rewrite !polls_cons. simpl.
  rewrite (T3_unchanged_iff _ fs2 roots (T2_wf_invariant c fs1 roots)).
  rewrite T1_new_cache. tauto.
Qed.
Print Assumptions C18_polls_step.

(* ------------------------------------------------------------------ *)
(* 8. non-vacuity examples                                             *)
(* ------------------------------------------------------------------ *)
Section Examples.
  Local Open Scope string_scope.
  Local Open Scope list_scope.
  Local Open Scope Z_scope.

  (* /a.py /b.pyc /.hidden /pkg/m.py /pkg/sub/x.txt /.git/config *)
  Definition ex_fs (m_mtime m_size pyc_mtime hid_mtime git_mtime : Z) (with_m : bool) : fsnode :=
    FDir "" [ FFile "a.py" 1 10; FFile "b.pyc" pyc_mtime 5; FFile ".hidden" hid_mtime 1;
              FDir "pkg" ((if with_m then [FFile "m.py" m_mtime m_size] else [])
                          ++ [FDir "sub" [FFile "x.txt" 3 3]]);
              FDir ".git" [FFile "config" git_mtime 1] ].

  Definition fs0 := ex_fs 2 20 1 1 1 true.
  Definition fs_mtime := ex_fs 9 20 1 1 1 true.       (* pkg/m.py touched *)
  Definition fs_size := ex_fs 2 21 1 1 1 true.        (* pkg/m.py grew, same mtime *)
  Definition fs_deleted := ex_fs 2 20 1 1 1 false.    (* pkg/m.py removed *)
  Definition fs_ignored := ex_fs 2 20 7 8 9 true.     (* b.pyc, .hidden, .git/config touched *)

  (* nested roots: the project directory and a package inside it *)
  Definition nested : list path := [[]; ["pkg"]].

  (* the raw visit repeats the files of pkg ... *)
  Example ex_visit_repeats :
    visit_roots fs0 nested =
    [(["a.py"], (1, 10)); (["pkg"; "m.py"], (2, 20)); (["pkg"; "sub"; "x.txt"], (3, 3));
     (["pkg"; "m.py"], (2, 20)); (["pkg"; "sub"; "x.txt"], (3, 3))].
  Proof. vm_compute. reflexivity. Qed.

  (* ... the cache holds each once; b.pyc, .hidden and .git/config are not watched *)
  Example ex_watched :
    watched fs0 nested =
    [(["a.py"], (1, 10)); (["pkg"; "m.py"], (2, 20)); (["pkg"; "sub"; "x.txt"], (3, 3))].
  Proof. vm_compute. reflexivity. Qed.

  Example ex_first_poll : check [] fs0 nested = (true, watched fs0 nested).
  Proof. vm_compute. reflexivity. Qed.

  (* nested roots polled twice: the second poll reports nothing *)
  Example ex_nested_twice : fst (polls [] nested [fs0; fs0]) = [true; false].
  Proof. vm_compute. reflexivity. Qed.

  (* duplicated roots, and a longer list with both *)
  Example ex_dup_twice : fst (polls [] [["pkg"]; ["pkg"]] [fs0; fs0; fs0]) = [true; false; false].
  Proof. vm_compute. reflexivity. Qed.
  Example ex_many_roots :
    fst (polls [] [["pkg"; "sub"]; []; ["pkg"]; []; ["nope"]] [fs0; fs0]) = [true; false].
  Proof. vm_compute. reflexivity. Qed.

  (* a modification is detected (mtime; size alone) and then the watcher is quiet again *)
  Example ex_mtime : fst (polls [] nested [fs0; fs_mtime; fs_mtime]) = [true; true; false].
  Proof. vm_compute. reflexivity. Qed.
  Example ex_size : fst (polls [] nested [fs0; fs_size; fs_size]) = [true; true; false].
  Proof. vm_compute. reflexivity. Qed.

  (* a deletion is detected; so is the re-creation *)
  Example ex_deleted :
    fst (polls [] nested [fs0; fs_deleted; fs_deleted; fs0]) = [true; true; false; true].
  Proof. vm_compute. reflexivity. Qed.

  (* changes of a .pyc file, a hidden file and a file in a hidden directory are ignored *)
  Example ex_ignored : fst (polls [] nested [fs0; fs_ignored]) = [true; false].
  Proof. vm_compute. reflexivity. Qed.

  (* a hidden root itself IS entered (only directories BELOW a root are filtered) *)
  Example ex_hidden_root : visit_roots fs0 [[".git"]] = [([".git"; "config"], (1, 1))].
  Proof. vm_compute. reflexivity. Qed.

  (* the hypotheses of the theorems are satisfiable: the example snapshot is well formed *)
  Example ex_fs_wf : fs_wf fs0.
  Proof.
    unfold fs0, ex_fs. simpl app.
    repeat (first
      [ apply fs_wf_file
      | apply fs_wf_dir;
        [ simpl; repeat (constructor; [simpl; intuition discriminate|]); constructor
        | simpl; intros y Hy;
          repeat (destruct Hy as [<-|Hy]; [|]); try contradiction ] ]).
  Qed.

  (* the theorems applied to the example: T3 right-to-left gives the quiet second poll *)
  Example ex_T3_instance : fst (check (watched fs0 nested) fs0 nested) = false.
  Proof. apply T3_unchanged_iff; [apply watched_wf | apply same_map_refl]. Qed.

  (* why the consistency hypothesis is interesting: in an ill-formed "snapshot" (two
     entries named pkg/m.py) the two visits of one path could carry different stats *)
  Example ex_ill_formed :
    let bad := FDir "" [FDir "pkg" [FFile "m.py" 1 1; FFile "m.py" 2 2]] in
    ~ fs_wf bad /\ ~ consistent (visit_roots bad [[]])
    /\ fst (polls [] [[]] [bad; bad]) = [true; false].  (* still idempotent: T4 needs no hypothesis *)
  Proof.
    cbv zeta. split; [|split].
    - intros H. inversion H as [|? ? _ Hc]; subst.
      specialize (Hc _ (or_introl eq_refl)). inversion Hc as [|? ? N _]; subst.
      simpl in N. inversion N as [|? ? N1 _]; subst. apply N1. left. reflexivity.
    - intros C. specialize (C ["pkg"; "m.py"] (1, 1) (2, 2)). vm_compute in C.
      assert (E : (1, 1) = (2, 2)) by (apply C; tauto). discriminate.
    - vm_compute. reflexivity.
  Qed.
End Examples.

(* ---- summary of assumptions ---- *)
Print Assumptions T1_new_cache_wf.
Print Assumptions T4_idempotent'.
Print Assumptions T4_fixed_point.
Print Assumptions T4_polls.
Print Assumptions T5_fil_name.
Print Assumptions T5_rec_name.
Print Assumptions T5_visit_roots.
Print Assumptions loop2_spec.
Print Assumptions nres_functional.
Print Assumptions ex_fs_wf.
Print Assumptions ex_ill_formed.
