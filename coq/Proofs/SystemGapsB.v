(* SystemGapsB.v — scheduler-level facts behind the reachable-state invariant of SystemGaps.v,
   for the scope family (loadscope / loadfile / loadgroup) and for each:

     SIs   unconditional invariant of the scheduler state (scope: registered nodes distinct;
           before the initial distribution the work queue and all assigned work are empty)
     Gs    the guard: what schedule() needs (ShutdownOnce.guard_hyp follows from SIs and Gs)
     TFs   "tests finished, and (scope) the initial distribution has not happened"
     cons_s  a node is registered or has been told to shut down

   per operation of Sched.s_step:
     F1  SIs is preserved                                              (s_step_SIs)
     F2  Gs is preserved (add_node: for a node that was not told to shut down)   (s_step_Gs)
     F3  TFs is preserved by remove_node / mark_test_complete / SNew ...          (s_step_TFs)
     F4  cons_s only grows by the node of add_node                               (s_step_cons) *)
From XV Require Import Base Worker Ctl SchedLoad SchedSteal SchedScope SchedEach Sched DSession NoHook
  DSessionProofs ShutdownOnce.
From XV Require LoadProofs StealProofs Coupling CollectionProofs SystemCorollariesColl.
Open Scope nat_scope.

Ltac inv H := inversion H; subst; clear H.

(* ------------------------------------------------------------------------------------------ *)
(* definitions                                                                                 *)
(* ------------------------------------------------------------------------------------------ *)
Definition triv (s : scstate) : Prop :=
  sc_coll s = None /\ sc_wq s = [] /\ forall n w, In (n, w) (sc_assigned s) -> w = [].

Definition SIs (st : sstate) : Prop :=
  match st with
  | StC s => NoDup (sc_nodes s) /\ (sc_coll s = None -> triv s)
  | _ => True
  end.
Definition Gs (st : sstate) : Prop :=
  match st with
  | StC s => sc_coll s = None -> forall n, In n (sc_nodes s) -> flag (sc_nt s) n = false
  | StE s => forall n, In n (e_nodes s) -> flag (e_nt s) n = true -> mem_nat n (e_started s) = true
  | _ => True
  end.
Definition Ps (st : sstate) : Prop :=
  match st with StC s => sc_coll s = None | StE _ => True | _ => False end.
Definition TFs (st : sstate) : Prop := s_tests_finished st = true /\ Ps st.
Definition cons_s (st : sstate) (n : nat) : Prop := flag (s_nt st) n = true \/ In n (s_nodes st).
Definition is_ce (st : sstate) : Prop := match st with StC _ | StE _ => True | _ => False end.

Lemma guard_hyp_of st : is_ce st -> SIs st -> Gs st -> guard_hyp st.
Proof.
  destruct st as [s|s|s|s]; cbn [is_ce SIs Gs guard_hyp]; try contradiction.
  - intros _ (ND & _) G Hc. split; [exact ND|exact (G Hc)].
  - intros _ _ G. exact G.
Qed.

(* ------------------------------------------------------------------------------------------ *)
(* scope: registered nodes stay distinct, the reference collection stays fixed                 *)
(* ------------------------------------------------------------------------------------------ *)
Definition NC (s s' : scstate) (o : list out) : Prop :=
  (NoDup (sc_nodes s) -> NoDup (sc_nodes s')) /\ (sc_coll s <> None -> sc_coll s' <> None).
Lemma NC_refl : rrefl NC. Proof. intros s. split; auto. Qed.
Lemma NC_trans : rtrans NC. Proof. intros a b c o1 o2 (A1 & A2) (B1 & B2). split; auto. Qed.
#[export] Hint Resolve NC_refl NC_trans : sdrel.

Lemma removelast_nodup {A} (l : list A) : NoDup l -> NoDup (removelast l).
Proof.
  induction l as [|x l IH]; intros H; [exact H|]. cbn [removelast]. destruct l as [|y l]; [constructor|].
  inversion H; subst. constructor; [|apply IH; assumption].
  intros Hin. apply H2. clear -Hin. revert Hin. generalize (y :: l). intros l0.
  induction l0 as [|a l0 IH]; cbn; [intros []|]. destruct l0; [intros []|].
  intros [->|Hin]; [left; reflexivity|right; apply IH; exact Hin].
Qed.
Lemma akeys_removelast {V} (m : amap V) : akeys (removelast m) = removelast (akeys m).
Proof.
  unfold akeys. induction m as [|x m IH]; [reflexivity|]. cbn [removelast map].
  destruct m as [|y m]; [reflexivity|]. cbn [map] in *. rewrite IH. reflexivity.
Qed.

Ltac nc_now :=
  unfold NC, sc_nodes; cbn [sc_assigned sc_coll sc_set_assigned sc_set_wq sc_set_reg sc_set_coll sc_set_nt];
  split; [intros ND_; first [exact ND_ | apply Coupling.akeys_aset_nodup; exact ND_
                            | apply LoadProofs.adel_nodup; exact ND_
                            | rewrite akeys_removelast; apply removelast_nodup; exact ND_]
         | intros NN_; first [exact NN_ | discriminate]].

Lemma nc_node_shutdown n s0 : from NC s0 (node_shutdown sc_nt sc_set_nt n).
Proof.
  intros s' o r H. destruct (node_shutdown_frame _ _ _ _ _ _ _ H) as [->|(v & ->)]; [apply NC_refl|nc_now].
Qed.
Lemma nc_node_send n c s0 : from NC s0 (node_send sc_nt n c).
Proof. intros s' o r H. destruct (node_send_out _ _ _ _ _ _ _ H) as (-> & _). apply NC_refl. Qed.

Create HintDb ncdb.
#[export] Hint Resolve nc_node_shutdown nc_node_send : ncdb.
Ltac nc1 :=
  first
    [ apply f_ret; rr | apply f_raise; rr | apply f_massert; rr | apply f_of_opt; rr
    | apply f_getv; rr
    | apply f_put; nc_now
    | apply f_emit; apply NC_refl
    | apply f_mfor; [rr | rr | intros ? ?]
    | match goal with
      | |- from _ _ (mbind get _) => apply f_get
      | |- from _ _ (mbind (ret _) _) => apply f_ret_bind
      | |- from _ _ (mbind (of_opt _ _) _) => apply f_of_opt_bind; [rr | intros ? ?]
      | |- from _ _ (mbind (massert _) _) => apply f_massert_bind; [rr | intros ?]
      | |- from _ _ (mbind (node_shutting_down _ _) _) => apply f_nsd_bind; [rr | intros ? ?]
      | |- from _ _ (mbind _ _) => apply f_bind; [rr | | intros ? ?]
      end
    | progress cbv zeta
    | match goal with
      | |- from _ _ (match ?x with _ => _ end) => destruct x eqn:?
      | |- from _ _ (let '(_, _) := ?x in _) => destruct x eqn:?
      end
    | solve [eauto with ncdb] ].
Ltac ncc := repeat nc1.

Lemma nc_sc_add_node n s0 : from NC s0 (sc_add_node n).
Proof. unfold sc_add_node. ncc. Qed.
Lemma nc_sc_assign n s0 : from NC s0 (sc_assign_work_unit n).
Proof. unfold sc_assign_work_unit. ncc. Qed.
#[export] Hint Resolve nc_sc_assign : ncdb.
Lemma nc_sc_top_up fuel n s0 : from NC s0 (sc_top_up fuel n).
Proof. revert s0. induction fuel as [|f IH]; intros s0; cbn [sc_top_up]; ncc. Qed.
#[export] Hint Resolve nc_sc_top_up : ncdb.
Lemma nc_sc_reschedule n s0 : from NC s0 (sc_reschedule n).
Proof. unfold sc_reschedule. ncc. Qed.
#[export] Hint Resolve nc_sc_reschedule : ncdb.
Lemma nc_sc_remove n s0 : from NC s0 (sc_remove_node n).
Proof. unfold sc_remove_node. ncc. Qed.
Lemma nc_sc_add_coll n c s0 : from NC s0 (sc_add_node_collection n c).
Proof. unfold sc_add_node_collection. ncc. Qed.
Lemma nc_sc_complete n i s0 : from NC s0 (sc_mark_test_complete n i).
Proof. unfold sc_mark_test_complete. ncc. Qed.
Lemma nc_sc_same s0 : from NC s0 sc_same_collection.
Proof. unfold sc_same_collection. ncc. Qed.
#[export] Hint Resolve nc_sc_same : ncdb.
Lemma nc_sc_pop_extra k s0 : from NC s0 (sc_pop_extra k).
Proof. revert s0. induction k as [|k IH]; intros s0; cbn [sc_pop_extra]; ncc. Qed.
#[export] Hint Resolve nc_sc_pop_extra : ncdb.
Lemma nc_sc_schedule s0 : from NC s0 sc_schedule.
Proof. unfold sc_schedule. ncc. Qed.

(* ------------------------------------------------------------------------------------------ *)
(* scope: before the initial distribution every operation is trivial                           *)
(* ------------------------------------------------------------------------------------------ *)
Definition NS (n0 : option nat) (s s' : scstate) : Prop :=
  forall m, In m (sc_nodes s') -> In m (sc_nodes s) \/ n0 = Some m.
(* what an operation does from a trivial state: it fixes the reference collection, or the state
   stays trivial, the node table is untouched, nodes only appear through add_node n0, and a
   completed collection stays completed *)
Definition TRV (n0 : option nat) (s s' : scstate) : Prop :=
  triv s' /\ sc_nt s' = sc_nt s /\ NS n0 s s' /\
  (sc_collection_is_completed s = true -> sc_collection_is_completed s' = true).

Lemma TRV_same n0 s : triv s -> TRV n0 s s.
Proof. intros T. split; [exact T|]. split; [reflexivity|]. split; [intros m Hm; left; exact Hm|auto]. Qed.

Import CollectionProofs.

Lemma triv_add_node n s s' o r : sc_add_node n s = (s', o, r) -> triv s -> TRV (Some n) s s'.
Proof.
  intros H T. unfold sc_add_node in H. rewrite mbind_get in H.
  destruct (negb (ahas n (sc_assigned s))) eqn:E; cbn [massert] in H.
  - rewrite mbind_ret in H. unfold put in H. inv H. destruct T as (Tc & Tw & Ta).
    split; [|split; [reflexivity|split]].
    + split; [exact Tc|]. split; [exact Tw|]. cbn [sc_assigned sc_set_assigned]. intros k w Hin.
      apply SystemCorollariesColl.In_aset_inv in Hin. destruct Hin as [(_ & ->)|Hin]; [reflexivity|eapply Ta; exact Hin].
    + intros m Hm. unfold sc_nodes in *. cbn [sc_assigned sc_set_assigned] in Hm.
      apply Coupling.akeys_aset_cases in Hm. destruct Hm as [->|Hm]; auto.
    + auto.
  - rewrite mbind_raise in H. inv H. apply TRV_same. exact T.
Qed.

Lemma triv_add_coll n coll s s' o r : sc_add_node_collection n coll s = (s', o, r) -> triv s -> TRV None s s'.
Proof.
  intros H T. unfold sc_add_node_collection in H. rewrite mbind_get in H.
  destruct (ahas n (sc_assigned s)) eqn:E; cbn [massert] in H.
  2:{ rewrite mbind_raise in H. inv H. apply TRV_same. exact T. }
  rewrite mbind_ret in H. destruct (sc_collection_is_completed s) eqn:Ec.
  - pose proof T as (Tc & Tw & Ta). rewrite Tc in H. cbn beta iota in H. unfold raise in H. inv H. apply TRV_same. exact T.
  - unfold put in H. inv H.
    split; [exact T|]. split; [reflexivity|]. split; [intros m Hm; left; exact Hm|congruence].
Qed.

Lemma aget_in' {V} n (m : amap V) v : aget n m = Some v -> In (n, v) m.
Proof. apply CollectionProofs.aget_In. Qed.

Lemma triv_complete n idx s s' o r : sc_mark_test_complete n idx s = (s', o, r) -> triv s -> s' = s /\ o = [].
Proof.
  intros H (Tc & Tw & Ta). unfold sc_mark_test_complete in H. rewrite mbind_get in H.
  destruct (aget n (sc_reg s)) as [wcoll|]; cbn [of_opt] in H; [|rewrite mbind_raise in H; inv H; auto].
  rewrite mbind_ret in H.
  destruct (nth_error wcoll idx) as [nodeid|]; cbn [of_opt] in H; [|rewrite mbind_raise in H; inv H; auto].
  rewrite mbind_ret in H. cbv zeta in H.
  destruct (aget n (sc_assigned s)) as [w|] eqn:Ew; cbn [of_opt] in H; [|rewrite mbind_raise in H; inv H; auto].
  rewrite mbind_ret in H. rewrite (Ta n w (aget_in' _ _ _ Ew)) in H. cbn [sget of_opt] in H.
  rewrite mbind_raise in H. inv H. auto.
Qed.

Lemma triv_remove n s s' o r : sc_remove_node n s = (s', o, r) -> triv s -> TRV None s s' /\ o = [].
Proof.
  intros H T. pose proof T as (Tc & Tw & Ta). unfold sc_remove_node in H. rewrite mbind_get in H.
  destruct (aget n (sc_assigned s)) as [w|] eqn:Ew; cbn [of_opt] in H.
  2:{ rewrite mbind_raise in H. inv H. split; [apply TRV_same; exact T|reflexivity]. }
  rewrite mbind_ret, mbind_put in H. rewrite (Ta n w (aget_in' _ _ _ Ew)) in H.
  set (s1 := sc_set_assigned s (adel n (sc_assigned s))) in *.
  assert (T1 : triv s1).
  { split; [exact Tc|]. split; [exact Tw|]. intros k v Hin. subst s1. cbn [sc_assigned sc_set_assigned] in Hin.
    apply SystemCorollariesColl.In_adel_inv in Hin. eapply Ta; exact Hin. }
  assert (N1 : NS None s s1).
  { intros m Hm. left. unfold sc_nodes in *. subst s1. cbn [sc_assigned sc_set_assigned] in Hm.
    eapply StealProofs.adel_keys_incl; exact Hm. }
  destruct (sc_collection_is_completed s) eqn:Ec.
  - assert (E : (s0 <- get ;; if sc_collection_is_completed s0 then ret tt
                              else put (sc_set_reg s0 (adel n (sc_reg s0)))) s1 = (s1, [], Ok tt)).
    { rewrite mbind_get. change (sc_collection_is_completed s1) with (sc_collection_is_completed s).
      rewrite Ec. reflexivity. }
    rewrite (mbind_ok _ _ _ _ _ _ E) in H. cbn [pending_of fold_right Nat.eqb Nat.add fst snd app] in H.
    unfold ret in H. cbn [fst snd] in H. inv H.
    split; [|reflexivity]. split; [exact T1|]. split; [reflexivity|]. split; [exact N1|]. intros _. exact Ec.
  - assert (E : (s0 <- get ;; if sc_collection_is_completed s0 then ret tt
                              else put (sc_set_reg s0 (adel n (sc_reg s0)))) s1 =
                (sc_set_reg s1 (adel n (sc_reg s1)), [], Ok tt)).
    { rewrite mbind_get. change (sc_collection_is_completed s1) with (sc_collection_is_completed s).
      rewrite Ec. reflexivity. }
    rewrite (mbind_ok _ _ _ _ _ _ E) in H. cbn [pending_of fold_right Nat.eqb Nat.add fst snd app] in H.
    unfold ret in H. cbn [fst snd] in H. inv H.
    split; [|reflexivity]. split; [exact T1|split; [reflexivity|split; [exact N1|congruence]]].
Qed.

Lemma triv_schedule s s' o r : sc_schedule s = (s', o, r) -> triv s -> sc_coll s' <> None \/ s' = s.
Proof.
  intros H (Tc & Tw & Ta). unfold sc_schedule in H. rewrite mbind_get in H.
  destruct (sc_collection_is_completed s); cbn [massert] in H; [|rewrite mbind_raise in H; inv H; auto].
  rewrite mbind_ret in H. rewrite Tc in H.
  apply mbind_inv in H. destruct H as [(e & H1 & _)|(s1 & o1 & same & o2 & H1 & H2 & _)].
  - right. exact (proj1 (stateless_sc_same s _ _ _ H1)).
  - destruct (stateless_sc_same s _ _ _ H1) as (-> & _).
    destruct (negb same); [unfold ret in H2; inv H2; auto|].
    rewrite mbind_get in H2.
    destruct (match sc_reg s with [] => None | (_, c) :: _ => Some c end) as [coll|]; cbn [of_opt] in H2;
      [|rewrite mbind_raise in H2; inv H2; auto].
    rewrite mbind_ret, mbind_put in H2. left.
    match type of H2 with ?m ?x = _ => assert (F : from NC x m) by (destruct coll; ncc) end.
    destruct (F _ _ _ H2) as (_ & K). apply K. cbn. discriminate.
Qed.

(* ---- F1 .. F3 for the scope family, per operation of the scheduler interface ---- *)
Lemma lift_inv {S A B} (wrap : S -> sstate) (f : A -> B) (m : M S A) s st' o r :
  lift wrap f (m s) = (st', o, r) -> exists s' r', m s = (s', o, r') /\ st' = wrap s'.
Proof.
  unfold lift. destruct (m s) as [[s1 o1] r1]. intros H. inversion H; subst. eauto.
Qed.

(* the scheduler operations that may run while the session is shutting down *)
Definition late_op (op : sop) : bool :=
  match op with
  | SRemove _ | SPending _ | SComplete _ _ _ | SUnsched _ _ | SNew _ _ | SFlags _ _ _ => true
  | _ => false
  end.

Lemma sc_tests_finished_triv s : triv s -> sc_tests_finished s = sc_collection_is_completed s.
Proof.
  intros (_ & Tw & Ta). unfold sc_tests_finished. rewrite Tw.
  assert (F : forallb (fun p => pending_of (snd p) <? 2) (sc_assigned s) = true).
  { apply forallb_forall. intros [k w] Hin. rewrite (Ta k w Hin). reflexivity. }
  rewrite F. destruct (sc_collection_is_completed s); reflexivity.
Qed.

(* what a scheduler operation does to a scope-family state whose reference collection is not
   fixed yet (SIs gives triviality) *)
Definition triv_post (op : sop) (s s' : scstate) : Prop :=
  (op = SSchedule /\ sc_coll s' <> None) \/
  (triv s' /\ (forall m, flag (sc_nt s') m = true -> flag (sc_nt s) m = true) /\
   (forall m, In m (sc_nodes s') -> In m (sc_nodes s) \/ op = SAddNode m) /\
   (sc_collection_is_completed s = true -> sc_collection_is_completed s' = true)).

Lemma sc_step_triv s op st' o r :
  (forall n, op <> SShutdown n) ->
  s_step (StC s) op = (st', o, r) -> triv s -> exists s', st' = StC s' /\ triv_post op s s'.
Proof.
  intros Hop H T.
  assert (SAME : exists s', StC s = StC s' /\ triv_post op s s').
  { exists s. split; [reflexivity|]. right. split; [exact T|]. split; [auto|]. split; [auto|auto]. }
  assert (OFTRV : forall n0 s', (forall m, n0 = Some m -> op = SAddNode m) ->
                  TRV n0 s s' -> exists s'', StC s' = StC s'' /\ triv_post op s s'').
  { intros n0 s' Hn (T' & Ent & Hns & Hc); exists s'; (split; [reflexivity|]).
    right. split; [exact T'|]. split; [intros m; rewrite Ent; auto|]. split; [|exact Hc].
    intros m Hm. destruct (Hns m Hm) as [K|K]; [left; exact K|right; apply Hn; exact K]. }
  destruct op; cbn [s_step] in H.
  - (* SNew *) inv H. eexists. split; [reflexivity|]. right. split; [exact T|]. split; [|split; [auto|auto]].
    intros m. cbn [s_nt sc_set_nt sc_nt]. unfold flag. rewrite aget_aset.
    destruct (Nat.eqb m n); [discriminate|auto].
  - (* SAddNode *) apply lift_inv in H. destruct H as (s' & r' & H & ->).
    apply (OFTRV (Some n) s'); [intros m E; inv E; reflexivity|]. eapply triv_add_node; eassumption.
  - (* SAddColl *) apply lift_inv in H. destruct H as (s' & r' & H & ->).
    apply (OFTRV None s'); [discriminate|]. eapply triv_add_coll; eassumption.
  - (* SSchedule *) apply lift_inv in H. destruct H as (s' & r' & H & ->).
    destruct (triv_schedule _ _ _ _ H T) as [K| ->]; [|exact SAME].
    exists s'. split; [reflexivity|left; split; [reflexivity|exact K]].
  - (* SComplete *) apply lift_inv in H. destruct H as (s' & r' & H & ->).
    destruct (triv_complete _ _ _ _ _ _ H T) as (-> & _). exact SAME.
  - (* SPending *) inv H. exact SAME.
  - (* SUnsched *) inv H. exact SAME.
  - (* SRemove *) apply lift_inv in H. destruct H as (s' & r' & H & ->).
    destruct (triv_remove _ _ _ _ _ H T) as (K & _). apply (OFTRV None s'); [discriminate|exact K].
  - (* SFlags *) cbn [s_nt] in H. destruct (aget n (sc_nt s)) as [c|] eqn:Ec; inv H; [|exact SAME].
    eexists. split; [reflexivity|]. right. split; [exact T|]. split; [|split; [auto|auto]].
    intros m. cbn [s_nt sc_set_nt sc_nt]. unfold flag. rewrite aget_aset.
    destruct (Nat.eqb m n) eqn:E; [|auto]. apply Nat.eqb_eq in E. subst m. rewrite Ec. cbn. auto.
  - (* SShutdown *) destruct (Hop n eq_refl).
Qed.

(* ------------------------------------------------------------------------------------------ *)
(* F4, scope: the _shutdown_sent flag is only ever set for registered nodes                    *)
(* ------------------------------------------------------------------------------------------ *)
Lemma akeys_aset_in {V} n (v : V) m : In n (akeys m) -> akeys (aset n v m) = akeys m.
Proof. intros H. apply StealProofs.aget_keys in H. destruct H as (c & Hc). eapply StealProofs.akeys_aset; exact Hc. Qed.

Section CRelGen.
  Context {S : Type} (nt_of : S -> ntable) (set_nt : S -> ntable -> S) (nodes : S -> list nat).
  Hypothesis nt_set : forall s v, nt_of (set_nt s v) = v.
  Hypothesis nodes_set : forall s v, nodes (set_nt s v) = nodes s.

  (* inner procedures: registered nodes unchanged, flags only set for registered nodes *)
  Definition INR (s s' : S) (o : list out) : Prop :=
    nodes s' = nodes s /\ forall m, flag (nt_of s') m = true -> flag (nt_of s) m = true \/ In m (nodes s).
  (* operations: registered nodes only disappear *)
  Definition CRel (s s' : S) (o : list out) : Prop :=
    (forall m, In m (nodes s') -> In m (nodes s)) /\
    forall m, flag (nt_of s') m = true -> flag (nt_of s) m = true \/ In m (nodes s).

  Lemma INR_refl : rrefl INR. Proof. intros s. split; auto. Qed.
  Lemma INR_trans : rtrans INR.
  Proof.
    intros a b c o1 o2 (A1 & A2) (B1 & B2). split; [congruence|]. intros m Fm.
    destruct (B2 m Fm) as [K|K]; [apply A2; exact K|right; rewrite <- A1; exact K].
  Qed.
  Lemma CRel_refl : rrefl CRel. Proof. intros s. split; auto. Qed.
  Lemma CRel_trans : rtrans CRel.
  Proof.
    intros a b c o1 o2 (A1 & A2) (B1 & B2). split; [auto|]. intros m Fm.
    destruct (B2 m Fm) as [K|K]; [apply A2; exact K|right; apply A1; exact K].
  Qed.
  Lemma INR_CRel s s' o : INR s s' o -> CRel s s' o.
  Proof. intros (A1 & A2). split; [intros m; rewrite A1; auto|exact A2]. Qed.
  Lemma inr_crel {A} s0 (m : M S A) : from INR s0 m -> from CRel s0 m.
  Proof. intros H s' o r E. apply INR_CRel. exact (H _ _ _ E). Qed.

  Lemma inr_node_send n c s0 : from INR s0 (node_send nt_of n c).
  Proof. intros s' o r H. destruct (node_send_out _ _ _ _ _ _ _ H) as (-> & _). apply INR_refl. Qed.

  Lemma inr_node_shutdown n s0 : In n (nodes s0) -> from INR s0 (node_shutdown nt_of set_nt n).
  Proof.
    intros Hn s' o r H. pose proof (node_shutdown_flags nt_of set_nt n _ _ _ _ nt_set H) as F.
    split.
    - destruct (node_shutdown_out _ _ _ _ _ _ _ H) as ([->|(v & ->)] & _); [reflexivity|apply nodes_set].
    - intros m Fm. destruct (Nat.eq_dec m n) as [->|Hm]; [right; exact Hn|left; rewrite <- (F m Hm); exact Fm].
  Qed.

  Lemma inr_mfor {A} (l : list A) (f : A -> M S unit) (P : list nat -> A -> Prop) s0 :
    (forall a s, In a l -> P (nodes s) a -> from INR s (f a)) ->
    (forall a, In a l -> P (nodes s0) a) -> from INR s0 (mfor l f).
  Proof.
    revert s0. induction l as [|x l IH]; intros s0 Hf Hp; cbn [mfor]; [apply f_ret; apply INR_refl|].
    apply f_bind_r; [apply INR_trans|apply Hf; [left; reflexivity|apply Hp; left; reflexivity]|].
    intros _ s1 o1 (Z & _). apply IH.
    - intros a s Ha. apply Hf. right. exact Ha.
    - intros a Ha. rewrite Z. apply Hp. right. exact Ha.
  Qed.
End CRelGen.

Notation cINR := (INR sc_nt sc_nodes).
Notation cCRel := (CRel sc_nt sc_nodes).
Lemma cINR_refl : rrefl cINR. Proof. apply INR_refl. Qed.
Lemma cINR_trans : rtrans cINR. Proof. apply INR_trans. Qed.
Lemma cCRel_refl : rrefl cCRel. Proof. apply CRel_refl. Qed.
Lemma cCRel_trans : rtrans cCRel. Proof. apply CRel_trans. Qed.
#[export] Hint Resolve cINR_refl cINR_trans cCRel_refl cCRel_trans : sdrel.

Ltac cinr_now :=
  unfold INR, sc_nodes; cbn [sc_assigned sc_nt sc_set_assigned sc_set_wq sc_set_reg sc_set_coll sc_set_nt];
  split; [first [reflexivity | apply akeys_aset_in; assumption] | intros m_ Fm_; left; exact Fm_].

Lemma cinr_assign n s0 : In n (sc_nodes s0) -> from cINR s0 (sc_assign_work_unit n).
Proof.
  intros Hn. unfold sc_assign_work_unit. apply f_get. destruct (sc_wq s0) as [|[scope u] wq']; [apply f_raise; rr|].
  apply f_put_bind; [rr|cinr_now|]. apply f_get. apply f_of_opt_bind; [rr|intros wcoll _].
  apply f_of_opt_bind; [rr|intros ixs _]. apply inr_node_send.
Qed.
Lemma cinr_top_up fuel n s0 : In n (sc_nodes s0) -> from cINR s0 (sc_top_up fuel n).
Proof.
  revert s0. induction fuel as [|f IH]; intros s0 Hn; cbn [sc_top_up]; [apply f_ret; rr|].
  apply f_get. destruct (sc_wq s0); [apply f_ret; rr|]. apply f_of_opt_bind; [rr|intros w0 _].
  destruct (pending_of w0 <? 2); [|apply f_ret; rr].
  apply f_bind_r; [rr|apply cinr_assign; exact Hn|]. intros _ s1 o1 (Z & _). apply IH. rewrite Z. exact Hn.
Qed.
Lemma cinr_reschedule n s0 : In n (sc_nodes s0) -> from cINR s0 (sc_reschedule n).
Proof.
  intros Hn. unfold sc_reschedule. apply f_nsd_bind; [rr|]. intros c Hc.
  destruct (shutting_down c); [apply f_ret; rr|]. apply f_get.
  destruct (sc_wq s0); [apply (inr_node_shutdown sc_nt sc_set_nt sc_nodes); [reflexivity|reflexivity|exact Hn]|].
  destruct (negb (ahas n (sc_reg s0))); [apply f_ret; rr|].
  apply f_of_opt_bind; [rr|]. intros wl Hw. destruct (2 <? pending_of wl); [apply f_ret; rr|].
  apply f_bind_r; [rr|apply cinr_assign; exact Hn|]. intros _ s1 o1 (Z & _). apply f_get.
  apply cinr_top_up. rewrite Z. exact Hn.
Qed.
Lemma cinr_mfor_reschedule l s0 : (forall a, In a l -> In a (sc_nodes s0)) -> from cINR s0 (mfor l sc_reschedule).
Proof.
  intros Hl. apply (inr_mfor sc_nt sc_nodes l sc_reschedule (fun ns a => In a ns)); [|exact Hl].
  intros a s _ Ha. apply cinr_reschedule. exact Ha.
Qed.

Lemma f_emit_same {S B} (R : S -> S -> list out -> Prop) s0 x (k : unit -> M S B) :
  rtrans R -> R s0 s0 [x] -> from R s0 (k tt) -> from R s0 (mbind (emit x) k).
Proof.
  intros Rt Hx Hk s' o r H. unfold mbind, emit in H.
  destruct (k tt s0) as [[s2 o2] r2] eqn:E. inversion H; subst.
  change (x :: o2) with ([x] ++ o2). eapply Rt; [exact Hx|exact (Hk _ _ _ E)].
Qed.

Lemma ccrel_add_coll n c s0 : from cCRel s0 (sc_add_node_collection n c).
Proof.
  apply inr_crel. unfold sc_add_node_collection. apply f_get. apply f_massert_bind; [rr|intros Hn].
  apply StealProofs.ahas_keys in Hn.
  destruct (sc_collection_is_completed s0); [|apply f_put; cinr_now].
  destruct (sc_coll s0) as [[|c0 cr]|]; try (apply f_raise; rr).
  destruct (coll_eqb c (c0 :: cr)); [apply f_put; cinr_now|].
  apply f_of_opt_bind; [rr|intros other _]. apply f_emit_same; [rr|apply cINR_refl|].
  apply (inr_node_shutdown sc_nt sc_set_nt sc_nodes); [reflexivity|reflexivity|exact Hn].
Qed.
Lemma ccrel_complete n i s0 : from cCRel s0 (sc_mark_test_complete n i).
Proof.
  apply inr_crel. unfold sc_mark_test_complete. apply f_get.
  apply f_of_opt_bind; [rr|intros wcoll _]. apply f_of_opt_bind; [rr|intros nodeid _]. cbv zeta.
  apply f_of_opt_bind; [rr|intros w Hw]. apply f_of_opt_bind; [rr|intros u _].
  assert (Hn : In n (sc_nodes s0)) by (apply StealProofs.aget_keys; eauto).
  apply f_put_bind; [rr|cinr_now|]. apply cinr_reschedule.
  unfold sc_nodes. cbn [sc_assigned sc_set_assigned]. rewrite akeys_aset_in; exact Hn.
Qed.
Lemma ccrel_remove n s0 : from cCRel s0 (sc_remove_node n).
Proof.
  unfold sc_remove_node. apply f_get. apply f_of_opt_bind; [rr|intros w Hw].
  apply f_put_bind; [rr| |].
  { split; [|intros m Fm; left; exact Fm]. intros m Hm. unfold sc_nodes in *. cbn [sc_assigned sc_set_assigned] in Hm.
    eapply StealProofs.adel_keys_incl; exact Hm. }
  apply inr_crel. apply f_bind; [rr| |intros _ s1].
  { apply f_get. match goal with |- from _ _ (if ?x then _ else _) => destruct x end; [apply f_ret; rr|apply f_put; cinr_now]. }
  destruct (pending_of w =? 0); [apply f_ret; rr|]. apply f_of_opt_bind; [rr|intros crash _].
  apply f_get. apply f_put_bind; [rr|cinr_now|]. apply f_get.
  apply f_bind; [rr| |intros; apply f_ret; rr]. apply cinr_mfor_reschedule. intros a Ha. exact Ha.
Qed.
Lemma cinr_same s0 : from cINR s0 sc_same_collection.
Proof.
  unfold sc_same_collection. apply f_get. destruct (sc_reg s0) as [|[first col] others]; [apply f_raise; rr|].
  apply f_bind; [rr| |intros; apply f_ret; rr]. apply f_mfor; [rr|rr|]. intros p s1.
  destruct (coll_eqb col (snd p)); [apply f_ret; rr|apply f_emit; apply cINR_refl].
Qed.

Lemma ccrel_pop_extra k s0 : from cCRel s0 (sc_pop_extra k).
Proof.
  revert s0. induction k as [|k IH]; intros s0; cbn [sc_pop_extra]; [apply f_ret; rr|].
  apply f_get. destruct (rev (sc_assigned s0)) as [|[n w] rest] eqn:Er; [apply f_raise; rr|].
  apply rev_cons_inv in Er.
  intros s' o r H. rewrite mbind_put in H.
  set (X := sc_set_assigned s0 (removelast (sc_assigned s0))) in *.
  assert (HX : sc_nodes s0 = sc_nodes X ++ [n] /\ sc_nt X = sc_nt s0).
  { unfold X, sc_nodes. cbn [sc_assigned sc_set_assigned sc_nt]. split; [|reflexivity].
    rewrite Er at 1. rewrite Er, removelast_last. unfold akeys. rewrite map_app. reflexivity. }
  destruct HX as (HX1 & HX2).
  apply mbind_inv in H. destruct H as [(e & H1 & ->)|(s2 & o2 & [] & o3 & H1 & H2 & ->)].
  - pose proof (node_shutdown_flags sc_nt sc_set_nt n _ _ _ _ (fun _ _ => eq_refl) H1) as F.
    assert (N2 : sc_nodes s' = sc_nodes X).
    { destruct (node_shutdown_out _ _ _ _ _ _ _ H1) as ([->|(v & ->)] & _); reflexivity. }
    split.
    + intros m Hm. rewrite N2 in Hm. rewrite HX1. apply in_or_app. left. exact Hm.
    + intros m Fm. destruct (Nat.eq_dec m n) as [->|Hm]; [right; rewrite HX1; apply in_or_app; right; left; reflexivity|].
      left. rewrite <- HX2, <- (F m Hm). exact Fm.
  - pose proof (node_shutdown_flags sc_nt sc_set_nt n _ _ _ _ (fun _ _ => eq_refl) H1) as F.
    assert (N2 : sc_nodes s2 = sc_nodes X).
    { destruct (node_shutdown_out _ _ _ _ _ _ _ H1) as ([->|(v & ->)] & _); reflexivity. }
    destruct (IH s2 _ _ _ H2) as (B1 & B2). split.
    + intros m Hm. apply B1 in Hm. rewrite N2 in Hm. rewrite HX1. apply in_or_app. left. exact Hm.
    + intros m Fm. destruct (B2 m Fm) as [K|K].
      * destruct (Nat.eq_dec m n) as [->|Hm]; [right; rewrite HX1; apply in_or_app; right; left; reflexivity|].
        left. rewrite <- HX2, <- (F m Hm). exact K.
      * right. rewrite N2 in K. rewrite HX1. apply in_or_app. left. exact K.
Qed.

Lemma ccrel_schedule s0 : from cCRel s0 sc_schedule.
Proof.
  unfold sc_schedule. apply f_get. apply f_massert_bind; [rr|intros _].
  destruct (sc_coll s0).
  { apply inr_crel. apply cinr_mfor_reschedule. intros a Ha. exact Ha. }
  apply f_bind; [rr|apply inr_crel, cinr_same|intros same s1].
  destruct (negb same); [apply f_ret; rr|]. apply f_get. apply f_of_opt_bind; [rr|intros coll _].
  apply f_put_bind; [rr|apply INR_CRel; cinr_now|]. destruct coll as [|c0 cr]; [apply f_ret; rr|].
  apply f_get. apply f_put_bind; [rr|apply INR_CRel; cinr_now|]. apply f_get.
  apply f_bind; [rr|apply ccrel_pop_extra|intros _ s4]. apply f_get.
  apply f_bind; [rr| |intros _ s5].
  { apply inr_crel. apply (inr_mfor sc_nt sc_nodes _ _ (fun ns a => In a ns)); [|intros a Ha; exact Ha].
    intros a s _ Ha. apply cinr_assign. exact Ha. }
  apply f_get. apply f_bind; [rr|apply inr_crel, cinr_mfor_reschedule; intros a Ha; exact Ha|intros _ s6].
  apply f_get. destruct (sc_wq s6); [|apply f_ret; rr].
  apply inr_crel. apply (inr_mfor sc_nt sc_nodes _ _ (fun ns a => In a ns)); [|intros a Ha; exact Ha].
  intros a s _ Ha. apply (inr_node_shutdown sc_nt sc_set_nt sc_nodes); [reflexivity|reflexivity|exact Ha].
Qed.

(* ------------------------------------------------------------------------------------------ *)
(* F4, each                                                                                    *)
(* ------------------------------------------------------------------------------------------ *)
Notation eINR := (INR e_nt e_nodes).
Notation eCRel := (CRel e_nt e_nodes).
Lemma eINR_refl : rrefl eINR. Proof. apply INR_refl. Qed.
Lemma eINR_trans : rtrans eINR. Proof. apply INR_trans. Qed.
Lemma eCRel_refl : rrefl eCRel. Proof. apply CRel_refl. Qed.
Lemma eCRel_trans : rtrans eCRel. Proof. apply CRel_trans. Qed.
#[export] Hint Resolve eINR_refl eINR_trans eCRel_refl eCRel_trans : sdrel.

Ltac einr_now :=
  unfold INR, e_nodes;
  cbn [e_n2p e_nt e_set_nt e_set_n2c e_set_n2p e_set_started e_set_removed e_set_completed];
  split; [first [reflexivity | apply akeys_aset_in; assumption] | intros m_ Fm_; left; exact Fm_].

Lemma einr_inherit n c dead s0 : In n (e_nodes s0) -> from eINR s0 (e_inherit n c dead).
Proof.
  intros Hn. induction dead as [|[d p] r IH]; cbn [e_inherit]; [apply f_ret; rr|].
  apply f_get. apply f_of_opt_bind; [rr|intros sd _]. apply f_of_opt_bind; [rr|intros sn _].
  destruct (Nat.eqb sd sn); [|exact IH]. apply f_of_opt_bind; [rr|intros dcoll _].
  destruct (coll_eqb c dcoll); [apply f_put; einr_now|apply f_emit; apply eINR_refl].
Qed.
Lemma einr_shutdown_started n s0 :
  In n (e_nodes s0) ->
  from eINR s0 (node_shutdown e_nt e_set_nt n ;;; s1 <- get ;; put (e_set_started s1 (e_started s1 ++ [n]))).
Proof.
  intros Hn. apply f_bind; [rr|apply (inr_node_shutdown e_nt e_set_nt e_nodes); [reflexivity|reflexivity|exact Hn]|].
  intros _ s1. apply f_get. apply f_put. einr_now.
Qed.
Lemma einr_add_coll n c s0 : from eINR s0 (e_add_node_collection n c).
Proof.
  unfold e_add_node_collection. apply f_get. apply f_massert_bind; [rr|intros Hn].
  apply StealProofs.ahas_keys in Hn. change (In n (e_nodes s0)) in Hn.
  destruct (negb (e_completed s0)).
  - apply f_put_bind; [rr|einr_now|]. apply f_get.
    match goal with |- from _ _ (if ?x then _ else _) => destruct x end; [apply f_put; einr_now|apply f_ret; rr].
  - apply f_bind_r; [rr|apply einr_inherit; exact Hn|]. intros _ s1 o1 (Z & _). apply f_get.
    apply f_of_opt_bind; [rr|intros pend _]. destruct pend; [|apply f_ret; rr].
    apply einr_shutdown_started. rewrite Z. exact Hn.
Qed.
Lemma einr_complete n i s0 : from eINR s0 (e_mark_test_complete n i).
Proof.
  unfold e_mark_test_complete. apply f_get. apply f_of_opt_bind; [rr|intros cur Hc].
  assert (Hn : In n (akeys (e_n2p s0))) by (apply StealProofs.aget_keys; eauto).
  apply f_of_opt_bind; [rr|intros cur' _]. apply f_put. einr_now.
Qed.
Lemma ecrel_remove n s0 : from eCRel s0 (e_remove_node n).
Proof.
  unfold e_remove_node. apply f_get. apply f_of_opt_bind; [rr|intros pend _].
  apply f_put_bind; [rr| |].
  { split; [|intros m Fm; left; exact Fm]. intros m Hm. unfold e_nodes in *. cbn [e_n2p e_set_n2p] in Hm.
    eapply StealProofs.adel_keys_incl; exact Hm. }
  apply inr_crel. apply f_bind; [rr| |intros _ s1].
  { apply f_get. match goal with |- from _ _ (if ?x then _ else _) => destruct x end; [apply f_ret; rr|apply f_put; einr_now]. }
  destruct pend as [|i rest]; [apply f_ret; rr|]. apply f_get. apply f_of_opt_bind; [rr|intros coll _].
  apply f_of_opt_bind; [rr|intros crash _]. apply f_bind; [rr| |intros; apply f_ret; rr].
  destruct rest; [apply f_ret; rr|apply f_put; einr_now].
Qed.
Lemma einr_schedule_node n s0 : In n (e_nodes s0) -> from eINR s0 (e_schedule_node n).
Proof.
  intros Hn. unfold e_schedule_node. apply f_get. destruct (mem_nat n (e_started s0)); [apply f_ret; rr|].
  apply f_of_opt_bind; [rr|intros pend _].
  destruct pend as [|p pend]; [destruct (aget n (e_n2c s0)) as [coll|]|].
  - apply f_put_bind; [rr|einr_now|].
    apply f_bind_r; [rr|apply inr_node_send|]. intros _ s1 o1 (Z & _).
    apply einr_shutdown_started. rewrite Z. unfold e_nodes. cbn [e_n2p e_set_n2p]. rewrite akeys_aset_in; exact Hn.
  - apply f_ret; rr.
  - apply f_bind; [rr|apply inr_node_send|]. intros _ s1. apply f_get. apply f_put. einr_now.
Qed.
Lemma einr_schedule s0 : from eINR s0 e_schedule.
Proof.
  unfold e_schedule. apply f_get. apply f_massert_bind; [rr|intros _].
  apply (inr_mfor e_nt e_nodes _ _ (fun ns a => In a ns)); [|intros a Ha; exact Ha].
  intros a s _ Ha. apply einr_schedule_node. exact Ha.
Qed.

(* ------------------------------------------------------------------------------------------ *)
(* F2, each: "flag set => started" is preserved                                                *)
(* ------------------------------------------------------------------------------------------ *)
Definition Ge (s : estate) : Prop := e_inv (e_nodes s) s.
Definition GE (s s' : estate) (o : list out) : Prop := Ge s -> Ge s'.
Lemma GE_refl : rrefl GE. Proof. intros s H; exact H. Qed.
Lemma GE_trans : rtrans GE. Proof. intros a b c o1 o2 A B H. exact (B (A H)). Qed.
#[export] Hint Resolve GE_refl GE_trans : sdrel.

Ltac ge_now :=
  unfold GE, Ge, e_inv, e_nodes;
  cbn [e_n2p e_nt e_started e_set_nt e_set_n2c e_set_n2p e_set_started e_set_removed e_set_completed];
  rewrite ?akeys_aset_in by assumption; intros G_; exact G_.

Lemma ge_add_node n s s' o r : e_add_node n s = (s', o, r) -> flag (e_nt s) n = false -> Ge s -> Ge s'.
Proof.
  intros H Fn G. unfold e_add_node in H. rewrite mbind_get in H.
  destruct (negb (ahas n (e_n2p s))) eqn:E; cbn [massert] in H.
  - rewrite mbind_ret in H. unfold put in H. inv H. intros m Hm Fm. unfold e_nodes in Hm.
    cbn [e_n2p e_set_n2p e_nt e_started] in *. apply Coupling.akeys_aset_cases in Hm.
    destruct Hm as [->|Hm]; [congruence|exact (G m Hm Fm)].
  - rewrite mbind_raise in H. inv H. exact G.
Qed.
Lemma ge_inherit n c dead s0 : In n (e_nodes s0) -> from GE s0 (e_inherit n c dead).
Proof.
  intros Hn. induction dead as [|[d p] r IH]; cbn [e_inherit]; [apply f_ret; rr|].
  apply f_get. apply f_of_opt_bind; [rr|intros sd _]. apply f_of_opt_bind; [rr|intros sn _].
  destruct (Nat.eqb sd sn); [|exact IH]. apply f_of_opt_bind; [rr|intros dcoll _].
  destruct (coll_eqb c dcoll); [apply f_put; unfold e_nodes in Hn; ge_now|apply f_emit; apply GE_refl].
Qed.
Lemma ge_shutdown_started n s0 :
  In n (e_nodes s0) ->
  from GE s0 (node_shutdown e_nt e_set_nt n ;;; s1 <- get ;; put (e_set_started s1 (e_started s1 ++ [n]))).
Proof.
  intros Hn s' o r H G. destruct (einr_shutdown_started n s0 Hn _ _ _ H) as (N & _).
  unfold Ge. rewrite N. exact (proj1 (ei_shutdown_started (e_nodes s0) n s0 _ _ _ H G)).
Qed.
Lemma ge_add_coll n c s0 : from GE s0 (e_add_node_collection n c).
Proof.
  unfold e_add_node_collection. apply f_get. apply f_massert_bind; [rr|intros Hn].
  apply StealProofs.ahas_keys in Hn.
  destruct (negb (e_completed s0)).
  - apply f_put_bind; [rr|ge_now|]. apply f_get.
    match goal with |- from _ _ (if ?x then _ else _) => destruct x end; [apply f_put; ge_now|apply f_ret; rr].
  - intros s' o r H. apply mbind_inv in H. destruct H as [(e & H1 & ->)|(s1 & o1 & [] & o2 & H1 & H2 & ->)].
    + exact (ge_inherit n c _ s0 Hn _ _ _ H1).
    + eapply GE_trans; [exact (ge_inherit n c _ s0 Hn _ _ _ H1)|].
      destruct (einr_inherit n c _ s0 Hn _ _ _ H1) as (Z & _).
      assert (F : from GE s1 (s2 <- get ;; pend <- of_opt (aget n (e_n2p s2)) EKey ;;
                   match pend with
                   | [] => node_shutdown e_nt e_set_nt n ;;; s3 <- get ;; put (e_set_started s3 (e_started s3 ++ [n]))
                   | _ => ret tt end)).
      { apply f_get. apply f_of_opt_bind; [rr|intros pend _]. destruct pend; [|apply f_ret; rr].
        apply ge_shutdown_started. rewrite Z. exact Hn. }
      exact (F _ _ _ H2).
Qed.
Lemma ge_complete n i s0 : from GE s0 (e_mark_test_complete n i).
Proof.
  unfold e_mark_test_complete. apply f_get. apply f_of_opt_bind; [rr|intros cur Hc].
  assert (Hn : In n (akeys (e_n2p s0))) by (apply StealProofs.aget_keys; eauto).
  apply f_of_opt_bind; [rr|intros cur' _]. apply f_put. ge_now.
Qed.
Lemma ge_remove n s0 : from GE s0 (e_remove_node n).
Proof.
  unfold e_remove_node. apply f_get. apply f_of_opt_bind; [rr|intros pend _].
  apply f_put_bind; [rr| |].
  { intros G m Hm Fm. unfold e_nodes in Hm. cbn [e_n2p e_set_n2p e_nt e_started] in *.
    apply (G m); [eapply StealProofs.adel_keys_incl; exact Hm|exact Fm]. }
  apply f_bind; [rr| |intros _ s1].
  { apply f_get. match goal with |- from _ _ (if ?x then _ else _) => destruct x end; [apply f_ret; rr|apply f_put; ge_now]. }
  destruct pend as [|i rest]; [apply f_ret; rr|]. apply f_get. apply f_of_opt_bind; [rr|intros coll _].
  apply f_of_opt_bind; [rr|intros crash _]. apply f_bind; [rr| |intros; apply f_ret; rr].
  destruct rest; [apply f_ret; rr|apply f_put; ge_now].
Qed.
Lemma ge_schedule s0 : from GE s0 e_schedule.
Proof.
  intros s' o r H G. destruct (einr_schedule s0 _ _ _ H) as (N & _).
  assert (K : from (with_inv (e_inv (akeys (e_n2p s0))) (gR e_nt)) s0 e_schedule).
  { unfold e_schedule. apply f_get. apply f_massert_bind; [rr|intros _].
    apply f_mfor_in; [rr|rr|]. intros n Hn s. apply ei_schedule_node. exact Hn. }
  unfold Ge. rewrite N. exact (proj1 (K _ _ _ H G)).
Qed.

(* ------------------------------------------------------------------------------------------ *)
(* F3, each: tests_finished survives remove_node and mark_test_complete                        *)
(* ------------------------------------------------------------------------------------------ *)
Definition TFE (s s' : estate) (o : list out) : Prop := e_tests_finished s = true -> e_tests_finished s' = true.
Lemma TFE_refl : rrefl TFE. Proof. intros s H; exact H. Qed.
Lemma TFE_trans : rtrans TFE. Proof. intros a b c o1 o2 A B H. exact (B (A H)). Qed.
#[export] Hint Resolve TFE_refl TFE_trans : sdrel.

Lemma forallb_adel {V} (f : nat * V -> bool) n m : forallb f m = true -> forallb f (adel n m) = true.
Proof.
  induction m as [|[k v] m IH]; cbn; [auto|]. intros H. apply andb_true_iff in H. destruct H as (H1 & H2).
  destruct (Nat.eqb n k); [exact H2|]. cbn. rewrite H1. apply IH. exact H2.
Qed.
Lemma forallb_aset {V} (f : nat * V -> bool) n v m :
  (forall k, f (k, v) = true) -> forallb f m = true -> forallb f (aset n v m) = true.
Proof.
  intros Hv. induction m as [|[k w] m IH]; cbn; [intros _; rewrite Hv; reflexivity|].
  intros H. apply andb_true_iff in H. destruct H as (H1 & H2).
  destruct (Nat.eqb n k); cbn; [rewrite Hv; exact H2|rewrite H1; apply IH; exact H2].
Qed.
Lemma forallb_aget {V} (f : nat * V -> bool) n v m : forallb f m = true -> aget n m = Some v -> f (n, v) = true.
Proof.
  intros H Hg. apply aget_in' in Hg. rewrite forallb_forall in H. exact (H _ Hg).
Qed.
Lemma remove_first_length x l l' : remove_first x l = Some l' -> length l = S (length l').
Proof.
  revert l'. induction l as [|y l IH]; intros l' H; cbn in H; [discriminate|].
  destruct (Nat.eqb x y); [inv H; reflexivity|].
  destruct (remove_first x l) as [r'|]; [|discriminate]. inv H. cbn. rewrite (IH r' eq_refl). reflexivity.
Qed.

Lemma tfe_complete n i s0 : from TFE s0 (e_mark_test_complete n i).
Proof.
  unfold e_mark_test_complete. apply f_get. apply f_of_opt_bind; [rr|intros cur Hc].
  apply f_of_opt_bind; [rr|intros cur' Hr]. apply f_put. unfold TFE, e_tests_finished.
  cbn [e_completed e_removed e_n2p e_set_n2p]. intros H.
  apply andb_true_iff in H. destruct H as (H1 & H2). rewrite H1. cbn [andb].
  pose proof (forallb_aget _ _ _ _ H2 Hc) as L. cbn [snd] in L. apply Nat.ltb_lt in L.
  apply remove_first_length in Hr.
  apply forallb_aset; [|exact H2]. intros k. cbn [snd]. apply Nat.ltb_lt. lia.
Qed.
Lemma tfe_remove n s0 : from TFE s0 (e_remove_node n).
Proof.
  unfold e_remove_node. apply f_get. apply f_of_opt_bind; [rr|intros pend Hp].
  destruct (e_tests_finished s0) eqn:TF; [|intros s' o r _; unfold TFE; rewrite TF; discriminate].
  assert (L : length pend < 2).
  { unfold e_tests_finished in TF. apply andb_true_iff in TF. destruct TF as (_ & H2).
    pose proof (forallb_aget _ _ _ _ H2 Hp) as L. cbn [snd] in L. apply Nat.ltb_lt in L. exact L. }
  apply f_put_bind; [rr| |].
  { unfold TFE, e_tests_finished. cbn [e_completed e_removed e_n2p e_set_n2p]. intros H.
    apply andb_true_iff in H. destruct H as (H1 & H2). rewrite H1. cbn [andb]. apply forallb_adel. exact H2. }
  assert (NOW : forall v, TFE (e_set_n2p s0 (adel n (e_n2p s0))) (e_set_n2c (e_set_n2p s0 (adel n (e_n2p s0))) v) []).
  { intros v H. exact H. }
  apply f_bind; [rr| |intros _ s1].
  { apply f_get. match goal with |- from _ _ (if ?x then _ else _) => destruct x end; [apply f_ret; rr|apply f_put; apply NOW]. }
  destruct pend as [|i rest]; [apply f_ret; rr|]. apply f_get. apply f_of_opt_bind; [rr|intros coll _].
  apply f_of_opt_bind; [rr|intros crash _]. apply f_bind; [rr| |intros; apply f_ret; rr].
  destruct rest; [apply f_ret; rr|]. cbn [length] in L. lia.
Qed.

(* ------------------------------------------------------------------------------------------ *)
(* the scheduler interface: F0 .. F4                                                           *)
(* ------------------------------------------------------------------------------------------ *)
(* the operations DSession performs on a scheduler *)
Definition dsop (op : sop) : bool := match op with SShutdown _ | SFlags _ _ _ => false | _ => true end.

Definition same_kind (st st' : sstate) : Prop :=
  match st, st' with
  | StL _, StL _ | StW _, StW _ | StC _, StC _ | StE _, StE _ => True
  | _, _ => False
  end.
Lemma same_kind_refl st : same_kind st st. Proof. destruct st; exact I. Qed.
Lemma same_kind_trans a b c : same_kind a b -> same_kind b c -> same_kind a c.
Proof. destruct a, b, c; cbn; auto. Qed.
Lemma same_kind_set_nt st v : same_kind st (s_set_nt st v). Proof. destruct st; exact I. Qed.

Lemma lift_kind {S A B} (wrap : S -> sstate) (f : A -> B) (x : S * list out * result A) st' o r :
  lift wrap f x = (st', o, r) -> exists s', st' = wrap s'.
Proof. unfold lift. destruct x as [[s1 o1] r1]. intros H. inversion H; subst. eauto. Qed.

(* F0 *)
Theorem s_step_kind st op st' o r : s_step st op = (st', o, r) -> same_kind st st'.
Proof.
  destruct op; cbn [s_step]; intros H;
    try (destruct st; apply lift_kind in H; destruct H as (s' & ->); exact I).
  - inv H. apply same_kind_set_nt.
  - destruct st; try (inv H; exact I); apply lift_kind in H; destruct H as (s' & ->); exact I.
  - destruct st; try (inv H; exact I); apply lift_kind in H; destruct H as (s' & ->); exact I.
  - destruct (aget n (s_nt st)); inv H; [apply same_kind_set_nt|apply same_kind_refl].
Qed.

Lemma is_ce_kind st st' : same_kind st st' -> is_ce st -> is_ce st'.
Proof. destruct st, st'; cbn; auto. Qed.

Lemma sc_step_NC s op s' o r :
  dsop op = true -> s_step (StC s) op = (StC s', o, r) -> NC s s' o.
Proof.
  destruct op; cbn [dsop s_step]; intros Hd H; try discriminate.
  - inv H. nc_now.
  - apply lift_inv in H. destruct H as (s1 & r1 & H & E). inv E. exact (nc_sc_add_node _ _ _ _ _ H).
  - apply lift_inv in H. destruct H as (s1 & r1 & H & E). inv E. exact (nc_sc_add_coll _ _ _ _ _ _ H).
  - apply lift_inv in H. destruct H as (s1 & r1 & H & E). inv E. exact (nc_sc_schedule _ _ _ _ H).
  - apply lift_inv in H. destruct H as (s1 & r1 & H & E). inv E. exact (nc_sc_complete _ _ _ _ _ _ H).
  - inv H. apply NC_refl.
  - inv H. apply NC_refl.
  - apply lift_inv in H. destruct H as (s1 & r1 & H & E). inv E. exact (nc_sc_remove _ _ _ _ _ H).
Qed.

Lemma dsop_not_shutdown op : dsop op = true -> forall n, op <> SShutdown n.
Proof. intros H n ->. discriminate. Qed.

(* F1 *)
Theorem s_step_SIs st op st' o r :
  dsop op = true -> s_step st op = (st', o, r) -> SIs st -> SIs st'.
Proof.
  intros Hd H. pose proof (s_step_kind _ _ _ _ _ H) as K.
  destruct st as [s|s|s|s], st' as [s'|s'|s'|s']; cbn [same_kind SIs] in *; try contradiction; auto.
  intros (ND & TR). destruct (sc_step_NC _ _ _ _ _ Hd H) as (N1 & N2). split; [exact (N1 ND)|].
  intros Hc. destruct (sc_coll s) eqn:Ec; [exfalso; apply N2; [discriminate|exact Hc]|].
  destruct (sc_step_triv _ _ _ _ _ (dsop_not_shutdown _ Hd) H (TR eq_refl)) as (s2 & E & [(_ & X)|(T' & _)]).
  - inv E. contradiction.
  - inv E. exact T'.
Qed.

Lemma flag_aset_new nt n c m : n_sdsent c = false -> flag (aset n c nt) m = true -> flag nt m = true.
Proof.
  unfold flag. rewrite aget_aset. destruct (Nat.eqb m n); [intros ->; discriminate|auto].
Qed.

(* F2 *)
Theorem s_step_Gs st op st' o r :
  dsop op = true -> s_step st op = (st', o, r) -> SIs st -> Gs st ->
  (forall n, op = SAddNode n -> flag (s_nt st) n = false) -> Gs st'.
Proof.
  intros Hd H. pose proof (s_step_kind _ _ _ _ _ H) as K.
  destruct st as [s|s|s|s], st' as [s'|s'|s'|s']; cbn [same_kind SIs Gs s_nt] in *; try contradiction; auto.
  - (* scope *)
    intros (ND & TR) G Hadd Hc. destruct (sc_step_NC _ _ _ _ _ Hd H) as (_ & N2).
    destruct (sc_coll s) eqn:Ec; [exfalso; apply N2; [discriminate|exact Hc]|].
    destruct (sc_step_triv _ _ _ _ _ (dsop_not_shutdown _ Hd) H (TR eq_refl)) as (s2 & E & [(_ & X)|(_ & Hf & Hn & _)]);
      inv E; [contradiction|].
    intros m Hm. destruct (flag (sc_nt s2) m) eqn:Fm; [|reflexivity]. apply Hf in Fm.
    destruct (Hn m Hm) as [Hin|Hop]; [rewrite (G eq_refl m Hin) in Fm; discriminate|].
    rewrite (Hadd m Hop) in Fm. discriminate.
  - (* each *)
    intros _ G Hadd. change (Ge s) in G. change (Ge s').
    destruct op; cbn [dsop s_step] in *; try discriminate.
    + inv H. intros m Hm Fm. cbn [e_nt e_set_nt e_started e_nodes e_n2p] in *.
      apply flag_aset_new in Fm; [|reflexivity]. exact (G m Hm Fm).
    + apply lift_inv in H. destruct H as (s1 & r1 & H & E). inv E.
      eapply ge_add_node; [exact H|exact (Hadd n eq_refl)|exact G].
    + apply lift_inv in H. destruct H as (s1 & r1 & H & E). inv E. exact (ge_add_coll _ _ _ _ _ _ H G).
    + apply lift_inv in H. destruct H as (s1 & r1 & H & E). inv E. exact (ge_schedule _ _ _ _ H G).
    + apply lift_inv in H. destruct H as (s1 & r1 & H & E). inv E. exact (ge_complete _ _ _ _ _ _ H G).
    + inv H. exact G.
    + inv H. exact G.
    + apply lift_inv in H. destruct H as (s1 & r1 & H & E). inv E. exact (ge_remove _ _ _ _ _ H G).
Qed.

(* F3 *)
Theorem s_step_TFs st op st' o r :
  late_op op = true -> dsop op = true -> s_step st op = (st', o, r) -> SIs st -> TFs st -> TFs st'.
Proof.
  intros Hl Hd H. pose proof (s_step_kind _ _ _ _ _ H) as K.
  destruct st as [s|s|s|s], st' as [s'|s'|s'|s']; cbn [same_kind SIs TFs Ps s_tests_finished] in *;
    try contradiction; try (intros _ (_ & []); fail).
  - (* scope *)
    intros (ND & TR) (TF & Hc).
    destruct (sc_step_triv _ _ _ _ _ (dsop_not_shutdown _ Hd) H (TR Hc)) as (s2 & E & [(Hs & _)|(T' & _ & _ & Hcomp)]);
      inv E; [discriminate|].
    unfold TFs. cbn [s_tests_finished Ps] in TF, Hc |- *.
    rewrite (sc_tests_finished_triv _ (TR Hc)) in TF. rewrite (sc_tests_finished_triv _ T').
    split; [exact (Hcomp TF)|exact (proj1 T')].
  - (* each *)
    intros _ (TF & _). split; [|exact I].
    destruct op; cbn [late_op dsop s_step] in *; try discriminate.
    + inv H. exact TF.
    + apply lift_inv in H. destruct H as (s1 & r1 & H & E). inv E. exact (tfe_complete _ _ _ _ _ _ H TF).
    + inv H. exact TF.
    + inv H. exact TF.
    + apply lift_inv in H. destruct H as (s1 & r1 & H & E). inv E. exact (tfe_remove _ _ _ _ _ H TF).
Qed.

Lemma add_node_keys {V} n (v : V) m k : In k (akeys (aset n v m)) -> In k (akeys m) \/ k = n.
Proof. intros H. apply Coupling.akeys_aset_cases in H. destruct H; auto. Qed.

(* F4 *)
Theorem s_step_cons st op st' o r :
  is_ce st -> dsop op = true -> s_step st op = (st', o, r) ->
  forall n, cons_s st' n -> cons_s st n \/ op = SAddNode n.
Proof.
  intros Hce Hd H. pose proof (s_step_kind _ _ _ _ _ H) as K.
  assert (FROMC : forall (fl fl' : nat -> bool) (ns ns' : list nat),
            (forall m, In m ns' -> In m ns) -> (forall m, fl' m = true -> fl m = true \/ In m ns) ->
            forall n, (fl' n = true \/ In n ns') -> (fl n = true \/ In n ns) \/ op = SAddNode n).
  { intros fl fl' ns ns' A B n [F|I0]; left; [destruct (B n F); auto|right; auto]. }
  destruct st as [s|s|s|s], st' as [s'|s'|s'|s']; cbn [same_kind is_ce] in *; try contradiction;
    unfold cons_s; cbn [s_nt s_nodes].
  - (* scope *)
    destruct op; cbn [dsop s_step] in *; try discriminate.
    + inv H. cbn [sc_nt sc_set_nt]. intros m [F|I0]; left; [left; eapply flag_aset_new; [|exact F]; reflexivity|right; exact I0].
    + apply lift_inv in H. destruct H as (s1 & r1 & H & E). inv E.
      unfold sc_add_node in H. rewrite mbind_get in H.
      destruct (negb (ahas n (sc_assigned s))); cbn [massert] in H.
      * rewrite mbind_ret in H. unfold put in H. inv H. cbn [sc_nt sc_set_assigned]. intros m [F|I0]; [left; left; exact F|].
        unfold sc_nodes in I0. cbn [sc_assigned sc_set_assigned] in I0. apply add_node_keys in I0.
        destruct I0 as [I0| ->]; [left; right; exact I0|right; reflexivity].
      * rewrite mbind_raise in H. inv H. auto.
    + apply lift_inv in H. destruct H as (s1 & r1 & H & E). inv E.
      destruct (ccrel_add_coll _ _ _ _ _ _ H) as (A & B). exact (FROMC _ _ _ _ A B).
    + apply lift_inv in H. destruct H as (s1 & r1 & H & E). inv E.
      destruct (ccrel_schedule _ _ _ _ H) as (A & B). exact (FROMC _ _ _ _ A B).
    + apply lift_inv in H. destruct H as (s1 & r1 & H & E). inv E.
      destruct (ccrel_complete _ _ _ _ _ _ H) as (A & B). exact (FROMC _ _ _ _ A B).
    + inv H. auto.
    + inv H. auto.
    + apply lift_inv in H. destruct H as (s1 & r1 & H & E). inv E.
      destruct (ccrel_remove _ _ _ _ _ H) as (A & B). exact (FROMC _ _ _ _ A B).
  - (* each *)
    destruct op; cbn [dsop s_step] in *; try discriminate.
    + inv H. cbn [e_nt e_set_nt]. intros m [F|I0]; left; [left; eapply flag_aset_new; [|exact F]; reflexivity|right; exact I0].
    + apply lift_inv in H. destruct H as (s1 & r1 & H & E). inv E.
      unfold e_add_node in H. rewrite mbind_get in H.
      destruct (negb (ahas n (e_n2p s))); cbn [massert] in H.
      * rewrite mbind_ret in H. unfold put in H. inv H. cbn [e_nt e_set_n2p]. intros m [F|I0]; [left; left; exact F|].
        unfold e_nodes in I0. cbn [e_n2p e_set_n2p] in I0. apply add_node_keys in I0.
        destruct I0 as [I0| ->]; [left; right; exact I0|right; reflexivity].
      * rewrite mbind_raise in H. inv H. auto.
    + apply lift_inv in H. destruct H as (s1 & r1 & H & E). inv E.
      destruct (INR_CRel _ _ _ _ _ (einr_add_coll _ _ _ _ _ _ H)) as (A & B). exact (FROMC _ _ _ _ A B).
    + apply lift_inv in H. destruct H as (s1 & r1 & H & E). inv E.
      destruct (INR_CRel _ _ _ _ _ (einr_schedule _ _ _ _ H)) as (A & B). exact (FROMC _ _ _ _ A B).
    + apply lift_inv in H. destruct H as (s1 & r1 & H & E). inv E.
      destruct (INR_CRel _ _ _ _ _ (einr_complete _ _ _ _ _ _ H)) as (A & B). exact (FROMC _ _ _ _ A B).
    + inv H. auto.
    + inv H. auto.
    + apply lift_inv in H. destruct H as (s1 & r1 & H & E). inv E.
      destruct (ecrel_remove _ _ _ _ _ H) as (A & B). exact (FROMC _ _ _ _ A B).
Qed.

Print Assumptions s_step_kind.
Print Assumptions s_step_SIs.
Print Assumptions s_step_Gs.
Print Assumptions s_step_TFs.
Print Assumptions s_step_cons.
