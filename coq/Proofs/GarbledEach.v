(* GarbledEach.v -- C17 for --dist each WITHOUT the hypothesis "no undecodable report":
   arbitrary crashes AND arbitrary Garbled reports.

   Same GHOST-RUN argument as GarbledCoupling.v / GarbledTheorems.v (--dist load), on top of the crash
   invariant XE of CrashEachTheorems.v:
     GInvE c s  :=  exists sg wo, XE c sg /\ GR s sg wo
   where sg is the ghost state in which every worker that has sent an undecodable report DIED at that
   moment (ghost up-wire  pre ++ [UEnd]  where the real one is  pre ++ UBad :: post), and GR / WoN / SyncN
   are the (mode-independent) relations of GarbledCoupling.v.

   Differences with --dist load:
     - the step lemmas of CrashEachTheorems.v (step_deliverX, step_pushX, step_crashX, step_recvX,
       step_ctl_coreX, close_if_dead_XE) do not depend on the oracle of the configuration at all (only
       on c_numnodes, c_coll, c_requeue), so the ghost invariant is XE for the REAL configuration: the
       de-garbled oracle  dgo (c_oracle c n)  only appears where the worker lemmas (NEX_recv, NEX_main,
       main_step_nogarb) take an oracle; no bound on the worker ids is needed;
     - the only ghost configuration is  scfg c false  (c with c_strict := false): the ghost of a worker
       that sends a garbled report dies WITHOUT the controller noticing (crash_worker sets the closed
       flag when c_strict), XE being insensitive to c_strict (XE_cfg);
     - no clause of XE is transiently false: the clause of the controller invariant that mentions the
       "shutdown sent" flag (dx_k1: a node of the scheduler that was told to shut down has been started)
       holds for a written-off worker, because its ghost died while running a test, so its book is not
       empty, so the scheduler has started it (XE_dead_sdsent).

   Main theorems:  ginve_run, garbled_each_c17  (hypotheses: those of crash_each_c17 minus no_garbled). *)
From XV Require Import Base Worker Ctl SchedLoad SchedSteal SchedScope SchedEach Sched DSession System
  NoHook DSessionProofs WorkerProofs LoadProofs FifoProofs ExactlyOnce Coupling CrashCoupling CrashTheorems
  EachSystem CrashEach CrashEachTheorems GarbledCoupling.
From Coq Require Import Permutation.
Open Scope nat_scope.

(* ====================================================================================== *)
(* 1. XE does not depend on c_strict / the oracles; flag changes on a dead node            *)
(* ====================================================================================== *)
Definition scfg (c : config) (b : bool) : config :=
  {| c_mode := c_mode c; c_numnodes := c_numnodes c; c_chunk := c_chunk c; c_maxfail := c_maxfail c;
     c_max_restart := c_max_restart c; c_requeue := c_requeue c; c_coll := c_coll c;
     c_oracle := c_oracle c; c_dur := c_dur c; c_crash_in := c_crash_in c;
     c_strict := b; c_spec := c_spec c |}.

Lemma XE_cfg c1 c2 s :
  c_numnodes c1 = c_numnodes c2 -> c_coll c1 = c_coll c2 -> XE c1 s -> XE c2 s.
Proof.
  intros E1 E2 [A1 A2 A3 A4 A5 A6 A7 A8 A9]. constructor; rewrite <- ?E1, <- ?E2; assumption.
Qed.

(* changing the flags of node n; the "shutdown sent" flag may only be raised on a started node *)
Lemma DXb_flag2 N collf d es n f f' :
  DXb N collf d es -> aget n (e_nt es) = Some f ->
  (n_sdsent f' = true -> n_sdsent f = true \/ In n (e_started es)) ->
  DXb N collf (d_set_nt d (aset n f' (d_nt d))) (upd_flagE es n f').
Proof.
  intros ([Els J Rq Act Fn K1 H1 H2 Jbb] & Jb) Ef Hs.
  assert (KEY : forall m, aget m (e_nt (upd_flagE es n f')) <> None <-> aget m (e_nt es) <> None).
  { intros m. rewrite aget_upd_flagE. destruct (Nat.eqb m n) eqn:E; [|reflexivity].
    apply Nat.eqb_eq in E. subst m. rewrite Ef. split; intros; discriminate. }
  assert (RE : reason (d_set_nt d (aset n f' (d_nt d))) (upd_flagE es n f') = reason d es) by reflexivity.
  unfold d_set_nt. split.
  - constructor; cbn [d_set_sched d_sched d_next_gw d_shouldstop d_shuttingdown d_active d_requeue d_failed_nodes].
    + unfold d_nt. rewrite Els. reflexivity.
    + destruct J. constructor; auto. intros m. rewrite KEY. auto.
    + exact Rq.
    + exact Act.
    + exact Fn.
    + intros Hr m g' Hm Eg' Hsd. rewrite aget_upd_flagE in Eg'. destruct (Nat.eqb m n) eqn:E.
      * apply Nat.eqb_eq in E. subst m. injection Eg' as <-.
        destruct (Hs Hsd) as [Hf|Hst]; [|exact Hst]. exact (K1 Hr n f Hm Ef Hf).
      * exact (K1 Hr m g' Hm Eg' Hsd).
    + exact H1.
    + exact H2.
    + exact Jbb.
  - exact Jb.
Qed.

Section FlagsE.
Variable c : config.
Notation N := (c_numnodes c).
Notation X0 := (c_coll c).

(* the down-independent flags (closed) of a dead node may change *)
Lemma XE_dead_flag s n f f' :
  XE c s -> mem_nat n (y_dead s) = true -> aget n (d_nt (y_d s)) = Some f ->
  n_sdsent f' = n_sdsent f -> n_down f' = n_down f ->
  XE c (set_d s (d_set_nt (y_d s) (aset n f' (d_nt (y_d s))))).
Proof.
  intros X Hd Ef Hs Hdn. pose proof X as [Lo Hi (es & DJd & NIs) Eq Eu Ea Er Edead Efin].
  pose proof DJd as ([Els J _ _ _ _ _ _ _] & _).
  assert (Ent : d_nt (y_d s) = e_nt es) by (unfold d_nt; rewrite Els; reflexivity).
  set (s' := set_d s (d_set_nt (y_d s) (aset n f' (d_nt (y_d s))))).
  assert (Ef' : aget n (e_nt es) = Some f) by (rewrite <- Ent; exact Ef).
  assert (Efn : aget n (e_nt (upd_flagE es n f')) = Some f') by (rewrite aget_upd_flagE, Nat.eqb_refl; reflexivity).
  constructor.
  - exact Lo.
  - exact Hi.
  - exists (upd_flagE es n f'). split; [apply (DXb_flag N X0 _ es n f); auto|].
    intros k w Hw. change (y_w s') with (y_w s) in Hw. destruct (Nat.eq_dec k n) as [->|Hk].
    + destruct (NIs n w Hw) as (A & C & D). split; [exact A|]. split; [exact C|].
      change (y_dead s') with (y_dead s). rewrite Hd in *. destruct D as [D1 D2 D3].
      constructor.
      * change (sigs s' n) with (sigs s n). eapply NDX_ext; [| | | |exact D1]; try reflexivity.
        intros f1 Ef1. rewrite Efn in Ef1. injection Ef1 as <-. exists f. auto.
      * destruct D2 as [pre g X1 X2 X3 X4 X5 X6 X7|q1 q2 X1 X2 X3 X4 X5 X6 X7|X1 X2 X3 X4 X5].
        -- assert (g = f) by congruence. subst g.
           eapply (DX_wire _ _ _ _ _ pre f'); eauto; try congruence.
        -- eapply (DX_queue _ _ _ _ _ q1 q2); eauto.
        -- eapply DX_done; eauto.
      * exact D3.
    + apply (NodeInvX_other X0 s s' es (upd_flagE es n f') k w []); auto; try apply no_errd_nil.
      * rewrite aget_upd_flagE. apply Nat.eqb_neq in Hk. rewrite Hk. reflexivity.
      * cbn. rewrite app_nil_r. reflexivity.
  - exact Eq.
  - exact Eu.
  - exact Ea.
  - exact Er.
  - exact Edead.
  - exact Efin.
Qed.

(* the receiver thread tells a (ghost-)dead worker, which was running a test, to shut down *)
Lemma XE_dead_sdsent s n f wg cur nxt sc :
  XE c s -> mem_nat n (y_dead s) = true -> alist_get [] n (y_up s) <> [] ->
  aget n (y_w s) = Some wg -> wph wg = PRun cur nxt sc ->
  aget n (d_nt (y_d s)) = Some f ->
  XE c (set_d s (d_set_nt (y_d s) (aset n (sd_mark f) (d_nt (y_d s))))).
Proof.
  intros X Hd Hup Hw Hph Ef. pose proof X as [Lo Hi (es & DJd & NIs) Eq Eu Ea Er Edead Efin].
  pose proof DJd as ([Els J _ _ _ _ _ _ _] & _).
  assert (Ent : d_nt (y_d s) = e_nt es) by (unfold d_nt; rewrite Els; reflexivity).
  set (f' := sd_mark f).
  set (s' := set_d s (d_set_nt (y_d s) (aset n f' (d_nt (y_d s))))).
  assert (Ef' : aget n (e_nt es) = Some f) by (rewrite <- Ent; exact Ef).
  assert (Efn : aget n (e_nt (upd_flagE es n f')) = Some f') by (rewrite aget_upd_flagE, Nat.eqb_refl; reflexivity).
  (* the node has a non-empty book, so the scheduler has started it *)
  assert (ST : In n (e_started es)).
  { destruct (NIs n wg Hw) as (_ & _ & D). rewrite Hd in D. destruct D as [_ D2 _].
    destruct D2 as [pre g X1 X2 X3 X4 X5 X6 (lost & X7)|q1 q2 X1 _ _ _ _ _ _|X1 _ _ _ _]; try contradiction.
    assert (NE : bkE es n <> []).
    { rewrite X7. unfold owedE, owed_main. rewrite Hph. intros F. apply app_eq_nil in F. destruct F as (_ & F). discriminate. }
    destruct (in_dec Nat.eq_dec n (e_started es)) as [Hin|Hni]; [exact Hin|]. exfalso.
    destruct (e_completed es) eqn:Ecc.
    - destruct (in_dec Nat.eq_dec n (e_nodes es)) as [Hnd|Hnn].
      + destruct (ex_ns _ _ _ _ J Ecc n Hnd Hni) as (F & _). contradiction.
      + apply NE. apply bkE_notin. exact Hnn.
    - destruct (ex_pre _ _ _ _ J Ecc) as (_ & _ & F). apply NE. apply F. }
  constructor.
  - exact Lo.
  - exact Hi.
  - exists (upd_flagE es n f'). split; [apply (DXb_flag2 N X0 _ es n f); auto|].
    intros k w Hw'. change (y_w s') with (y_w s) in Hw'. destruct (Nat.eq_dec k n) as [->|Hk].
    + assert (w = wg) by congruence. subst w.
      destruct (NIs n wg Hw) as (A & C & D). split; [exact A|]. split; [exact C|].
      change (y_dead s') with (y_dead s). rewrite Hd in *. destruct D as [D1 D2 D3].
      constructor.
      * change (sigs s' n) with (sigs s n). destruct D1 as [Ch Nd Nc Rd Hp Rn Ns]. constructor; auto.
        intros f1 Ef1 [Hr|Hb].
        -- exfalso. destruct (Nc (or_intror ST)) as (Q & _). exact (Q Hr).
        -- rewrite Hph in Hb. discriminate.
      * destruct D2 as [pre g X1 X2 X3 X4 X5 X6 X7|q1 q2 X1 X2 X3 X4 X5 X6 X7|X1 X2 X3 X4 X5].
        -- assert (g = f) by congruence. subst g.
           eapply (DX_wire _ _ _ _ _ pre f'); eauto.
        -- contradiction.
        -- contradiction.
      * exact D3.
    + apply (NodeInvX_other X0 s s' es (upd_flagE es n f') k w []); auto; try apply no_errd_nil.
      * rewrite aget_upd_flagE. apply Nat.eqb_neq in Hk. rewrite Hk. reflexivity.
      * cbn. rewrite app_nil_r. reflexivity.
  - exact Eq.
  - exact Eu.
  - exact Ea.
  - exact Er.
  - exact Edead.
  - exact Efin.
Qed.

Lemma ghost_wireX s n w : XE c s -> mem_nat n (y_dead s) = true -> aget n (y_w s) = Some w ->
  alist_get [] n (y_up s) <> [] -> exists f, aget n (d_nt (y_d s)) = Some f /\ n_down f = false.
Proof.
  intros X Hd Hw Hup. pose proof X as [Lo Hi (es & DJd & NIs) _ _ _ _ _ _].
  pose proof DJd as ([Els _ _ _ _ _ _ _ _] & _).
  destruct (NIs n w Hw) as (_ & _ & D). rewrite Hd in D. destruct D as [_ D2 _].
  destruct D2 as [pre g X1 X2 X3 X4 _ _ _|q1 q2 X1 _ _ _ _ _ _|X1 _ _ _ _]; try contradiction.
  exists g. split; [|exact X4]. unfold d_nt. rewrite Els. exact X3.
Qed.
End FlagsE.

(* ====================================================================================== *)
(* 2. the ghost invariant and its steps                                                    *)
(* ====================================================================================== *)
Definition GInvE (c : config) (s : sys) : Prop := exists sg wo, XE c sg /\ GR s sg wo.

Lemma ge_push_sync s sg wo n0 w' ms :
  GR s sg wo -> ~ In n0 wo ->
  GR (push_up (set_w s n0 w') n0 ms) (push_up (set_w sg n0 (dgw w')) n0 ms) wo.
Proof.
  intros R Hni. pose proof R as [G1 G2 G3 G4 G5].
  apply (GR_local s sg wo _ _ wo n0 R); auto.
  - intros n Hn. same_tac Hn.
  - intros n Hn. same_tac Hn.
  - tauto.
  - contradiction.
  - intros _. destruct (G5 n0 Hni) as [S1 S2 S3 S4].
    constructor; cbn [push_up set_w y_w y_down y_up y_dead]; rewrite ?aget_aset_eq, ?alist_get_aset_eq; auto.
    rewrite S3. reflexivity.
Qed.

Section StepsE.
Variable c : config.
Hypothesis Hpos : 0 < c_numnodes c.
Hypothesis Hcoh : forall n, ncollected (c_oracle c n) = length (c_coll c n).
Hypothesis Hrq : c_requeue c = 0.
Notation X0 := (c_coll c).

Lemma ge_deliver s n0 cmd rest w0 :
  GInvE c s -> mem_nat n0 (y_dead s) = false ->
  aget n0 (y_down s) = Some (cmd :: rest) -> aget n0 (y_w s) = Some w0 ->
  GInvE c {| y_d := y_d s; y_evq := y_evq s; y_down := aset n0 rest (y_down s); y_up := y_up s;
             y_w := aset n0 (deliver w0 cmd) (y_w s); y_dead := y_dead s; y_result := y_result s |}.
Proof.
  intros (sg & wo & X & R) Hd Ed Ew. pose proof R as [G1 G2 G3 G4 G5].
  destruct (in_dec Nat.eq_dec n0 wo) as [Hin|Hni].
  - exists sg, wo. split; [exact X|].
    apply (GR_local s sg wo _ sg wo n0 R); auto.
    + intros n Hn. same_tac Hn.
    + intros n Hn. apply same_at_refl.
    + tauto.
    + intros _. apply (WoN_ext s sg); auto; cbn [y_w y_d y_up].
      * intros _. rewrite aget_aset_eq. discriminate.
      * intros _. exists []. rewrite app_nil_r. reflexivity.
    + contradiction.
  - destruct (G5 n0 Hni) as [S1 S2 S3 S4]. rewrite Ew in S1. cbn in S1. rewrite Hd in S4.
    rewrite (alist_get_some [] _ _ _ Ed) in S2. apply alist_get_cons_aget in S2.
    eexists. exists wo. split; [exact (step_deliverX c Hpos Hrq sg n0 cmd rest (dgw w0) X S4 S2 S1)|].
    apply (GR_local s sg wo _ _ wo n0 R); auto.
    + intros n Hn. same_tac Hn.
    + intros n Hn. same_tac Hn.
    + tauto.
    + contradiction.
    + intros _. constructor; cbn [y_w y_down y_up y_dead]; rewrite ?aget_aset_eq, ?alist_get_aset_eq; auto.
      all: first [exact S3 | apply (sy_dead _ _ _ (G5 n0 Hni)) | reflexivity].
Qed.

(* the real process of a worker dies *)
Lemma ge_crash s n0 w0 :
  GInvE c s -> mem_nat n0 (y_dead s) = false -> aget n0 (y_w s) = Some w0 -> wph w0 <> PExited ->
  GInvE c (crash_worker c s n0).
Proof.
  intros (sg & wo & X & R) Hd Ew Hph. pose proof R as [G1 G2 G3 G4 G5].
  destruct (in_dec Nat.eq_dec n0 wo) as [Hin|Hni].
  - (* a written-off worker dies: only its closed flag may change *)
    assert (XD : XE c (set_d sg (y_d (crash_worker c s n0)))).
    { unfold crash_worker. cbn [y_d]. destruct (c_strict c); [|rewrite <- G1; rewrite set_d_same; exact X].
      destruct (aget n0 (d_nt (y_d s))) as [f|] eqn:Ef; [|rewrite <- G1; rewrite set_d_same; exact X].
      rewrite <- G1 in *. apply XE_dead_flag with (f := f); auto. apply (wo_dead _ _ _ (G4 n0 Hin)). }
    exists (set_d sg (y_d (crash_worker c s n0))), wo. split; [exact XD|].
    apply (GR_local s sg wo _ _ wo n0 R); auto.
    + intros k _. apply dn_crash.
    + intros n Hn. same_tac Hn.
    + intros n Hn. same_tac Hn.
    + tauto.
    + intros _. apply (WoN_ext s sg); auto; try apply (G4 n0 Hin).
      * apply dn_crash.
      * intros _. exists [UEnd]. unfold crash_worker. cbn [y_up]. apply alist_get_aset_eq.
    + contradiction.
  - destruct (G5 n0 Hni) as [S1 S2 S3 S4]. rewrite Ew in S1. cbn in S1. rewrite Hd in S4.
    assert (Hph' : wph (dgw w0) <> PExited) by (rewrite wph_dgw; destruct (wph w0); cbn; congruence).
    exists (crash_worker c sg n0), wo. split; [exact (step_crashX c Hpos Hrq sg n0 (dgw w0) X S4 S1 Hph')|].
    apply (GR_local s sg wo _ _ wo n0 R); auto.
    + unfold crash_worker. cbn [y_d]. rewrite G1. reflexivity.
    + intros k _. apply dn_crash.
    + intros n Hn. same_tac Hn.
    + intros n Hn. same_tac Hn.
    + tauto.
    + contradiction.
    + intros _. unfold crash_worker. constructor; cbn [y_w y_down y_up y_dead]; rewrite ?alist_get_aset_eq; auto.
      * rewrite S1, Ew. reflexivity.
      * rewrite S3. reflexivity.
      * rewrite !mem_nat_cons, Nat.eqb_refl. reflexivity.
Qed.

Lemma ge_recvw s n0 w0 w' evs :
  GInvE c s -> mem_nat n0 (y_dead s) = false -> aget n0 (y_w s) = Some w0 ->
  recv_step (c_oracle c n0) w0 = (w', evs) ->
  GInvE c (push_up (set_w s n0 w') n0 (map (up_of_wevent c n0) evs)).
Proof.
  intros (sg & wo & X & R) Hd Ew Es. pose proof R as [G1 G2 G3 G4 G5].
  destruct (in_dec Nat.eq_dec n0 wo) as [Hin|Hni].
  - exists sg, wo. split; [exact X|apply g_push_wo; auto].
  - destruct (G5 n0 Hni) as [S1 S2 S3 S4]. rewrite Ew in S1. cbn in S1. rewrite Hd in S4.
    pose proof X as [Lo Hi (es & DJd & NIs) Eq Eu Ea Er Edead Efin].
    destruct (NIs n0 (dgw w0) S1) as (Iw & NGw & D). rewrite S4 in D. destruct D as [D1 _ _ _ _].
    set (o' := dgo (c_oracle c n0)).
    assert (HK : ncollected o' = length (X0 n0)) by (exact (Hcoh n0)).
    assert (Es' : recv_step o' (dgw w0) = (dgw w', evs)).
    { unfold o'. rewrite recv_step_dgw, Es. reflexivity. }
    destruct (NEX_recv X0 o' _ _ _ _ _ _ _ HK D1) as (Ev & Xn). rewrite Es' in Ev, Xn. cbn [fst snd] in Ev, Xn. subst evs.
    destruct (recv_step_nogarb _ _ _ _ Es' NGw) as (NG1 & NG2).
    exists (push_up (set_w sg n0 (dgw w')) n0 (map (up_of_wevent c n0) [])), wo. split.
    + apply (step_pushX c Hpos Hrq) with (w0 := dgw w0); auto.
      * pose proof (recv_step_inv o' (dgw w0) Iw) as I1. rewrite Es' in I1. exact I1.
      * intros es1 Y. cbn [flat_map]. rewrite app_nil_r.
        destruct (NEX_recv X0 o' _ _ _ _ _ _ _ HK Y) as (_ & Z). rewrite Es' in Z. exact Z.
      * intros Hex. split; [|reflexivity]. rewrite (proj1 (recv_step_facts _ _ _ _ Es')). exact Hex.
    + apply ge_push_sync; auto.
Qed.

Lemma ge_main s n0 w0 w' evs :
  GInvE c s -> mem_nat n0 (y_dead s) = false -> aget n0 (y_w s) = Some w0 ->
  main_step (c_oracle c n0) w0 = Some (w', evs) ->
  GInvE c (push_up (set_w s n0 w') n0 (map (up_of_wevent c n0) evs)).
Proof.
  intros (sg & wo & X & R) Hd Ew Es. pose proof R as [G1 G2 G3 G4 G5].
  destruct (in_dec Nat.eq_dec n0 wo) as [Hin|Hni].
  - exists sg, wo. split; [exact X|apply g_push_wo; auto].
  - destruct (G5 n0 Hni) as [S1 S2 S3 S4]. rewrite Ew in S1. cbn in S1. rewrite Hd in S4.
    pose proof X as [Lo Hi (es & DJd & NIs) Eq Eu Ea Er Edead Efin].
    destruct (NIs n0 (dgw w0) S1) as (Iw & NGw & D). rewrite S4 in D. destruct D as [D1 D3 D4 D5 D6].
    set (o' := dgo (c_oracle c n0)).
    assert (Es' : main_step o' (dgw w0) = Some (dgw w', map dge evs)).
    { unfold o'. rewrite main_step_dgw, Es. reflexivity. }
    assert (GB : existsb is_garbled evs = false \/ exists e, evs = [e] /\ is_garbled e = true).
    { destruct (main_step_one _ _ _ _ Es) as [->|(e & ->)]; [left; reflexivity|]. cbn.
      destruct (is_garbled e) eqn:E; [right; eauto|left; reflexivity]. }
    destruct GB as [NGe|(e & -> & Ge)].
    + (* an ordinary event *)
      assert (NGf : Forall (fun e => is_garbled e = false) evs).
      { apply Forall_forall. intros e He. destruct (is_garbled e) eqn:E; [|reflexivity].
        assert (existsb is_garbled evs = true) by (apply existsb_exists; eauto). congruence. }
      assert (Edg : map dge evs = evs).
      { rewrite <- (map_id evs) at 2. apply map_ext_in. intros e He. apply dge_id.
        rewrite Forall_forall in NGf. auto. }
      rewrite Edg in Es'.
      destruct (NEX_main X0 _ _ _ _ _ _ _ _ _ _ Iw D1 Es') as (_ & Hok).
      destruct (main_step_nogarb _ _ _ _ (dgo_nogarbled (c_oracle c n0)) Es' NGw) as (NG1 & NG2).
      exists (push_up (set_w sg n0 (dgw w')) n0 (map (up_of_wevent c n0) evs)), wo. split.
      * apply (step_pushX c Hpos Hrq) with (w0 := dgw w0); auto.
        -- eapply main_step_inv; eauto.
        -- intros es1 Y. exact (proj1 (NEX_main X0 _ _ _ _ _ _ _ _ _ _ Iw Y Es')).
        -- intros Hex. exfalso. exact (main_step_not_exited _ _ _ _ Es' Hex).
      * apply ge_push_sync; auto.
    + (* a garbled report: the worker will be written off; its ghost dies now *)
      destruct (main_step_garbled _ _ _ _ Es Ge) as (cur & nxt & sc & Ph).
      assert (DN : dn n0 (y_d s) = false).
      { rewrite <- G1. unfold dn. pose proof DJd as ([Els _ _ _ _ _ _ _ _] & _).
        assert (Ent : d_nt (y_d sg) = e_nt es) by (unfold d_nt; rewrite Els; reflexivity). rewrite Ent.
        destruct (aget n0 (e_nt es)) as [f|] eqn:Ef; [|reflexivity]. destruct (n_down f) eqn:Edn; [|reflexivity].
        destruct (D6 f eq_refl Edn) as (_ & P). rewrite wph_dgw, Ph in P. discriminate. }
      set (c0 := scfg c false).
      assert (X0' : XE c0 sg) by (apply (XE_cfg c); [reflexivity|reflexivity|exact X]).
      assert (Hph' : wph (dgw w0) <> PExited) by (rewrite wph_dgw, Ph; discriminate).
      pose proof (step_crashX c0 Hpos Hrq sg n0 (dgw w0) X0' S4 S1 Hph') as XK.
      apply (XE_cfg c0 c) in XK; [|reflexivity|reflexivity].
      exists (crash_worker c0 sg n0), (n0 :: wo). split; [exact XK|].
      apply (GR_local s sg wo _ _ (n0 :: wo) n0 R); auto.
      * intros n Hn. same_tac Hn.
      * intros n Hn. same_tac Hn.
      * intros n Hn. cbn. split; [intros [F|F]; [congruence|exact F]|auto].
      * intros _. constructor.
        -- cbn [push_up set_w y_w]. rewrite aget_aset_eq. discriminate.
        -- exists (dgw w0), cur, nxt, (map dge (e :: sc)). split; [exact S1|rewrite wph_dgw, Ph; reflexivity].
        -- unfold crash_worker. cbn [y_dead]. rewrite mem_nat_cons, Nat.eqb_refl. reflexivity.
        -- left. split; [exact DN|]. exists (alist_get [] n0 (y_up s)), []. split.
           ++ cbn [push_up set_w y_up]. rewrite alist_get_aset_eq. cbn [map]. rewrite (garbled_up c n0 e Ge). reflexivity.
           ++ unfold crash_worker. cbn [y_up]. rewrite alist_get_aset_eq, S3. reflexivity.
      * intros F. exfalso. apply F. left. reflexivity.
Qed.

(* ---- the controller's main loop ---- *)
Lemma wo_ltE s sg wo k : XE c sg -> GR s sg wo -> In k wo -> k < d_next_gw (y_d s).
Proof.
  intros X R Hk. destruct (wo_g _ _ _ (gr_wo _ _ _ R k Hk)) as (wg & _ & _ & _ & Ewg & _).
  rewrite <- (gr_d _ _ _ R). exact (worker_ltX c sg k wg X Ewg).
Qed.

Lemma ge_ctl s ev q d' outs r :
  GInvE c s -> y_result s = None -> y_evq s = ev :: q -> d_loop_once ev (y_d s) = (d', outs, r) ->
  r = Ok tt /\
  forall rr, (forall e, rr <> Some (RError e)) -> (rr = None -> d_active d' <> []) ->
    (rr = Some RFinished -> d_session_finished d' = true /\ d_shouldstop d' = false) ->
    GInvE c (set_result (apply_outs (set_d (set_evq s q) d') outs) rr).
Proof.
  intros (sg & wo & X & R) Eres Eq El. pose proof R as [G1 G2 G3 G4 G5].
  rewrite <- G1 in El. rewrite <- G3 in Eres. rewrite <- G2 in Eq.
  destruct (step_ctl_coreX c Hpos Hrq sg ev q d' outs r X Eres Eq El) as (-> & CORE).
  pose proof (loop_once_step _ _ _ _ _ El) as SR.
  destruct (step_rel_spawn _ _ _ SR) as (GW & SPI).
  destruct (loop_once_fifo _ _ _ _ _ 0 El) as ((_ & _ & _ & RK) & _).
  split; [reflexivity|].
  intros rr H1 H2 H3. exists (set_result (apply_outs (set_d (set_evq sg q) d') outs) rr), wo.
  split; [apply CORE; auto|].
  apply GR_set_result. apply GR_apply_outs.
  - apply GR_set_dq; [exact R|]. intros k Hk. pose proof (wo_ltE s sg wo k X R Hk) as Hlt.
    rewrite <- G1 in *. destruct (RK k) as [E|(E & _)]; [exact E|lia].
  - intros id sp Hin Hwo. destruct (SPI id sp Hin) as (A & _).
    pose proof (wo_ltE s sg wo id X R Hwo) as Hlt. rewrite <- G1 in Hlt. lia.
Qed.

(* ---- the controller's receiver thread ---- *)
Lemma ge_close s1 n0 : GInvE c s1 -> GInvE c (close_if_dead s1 n0).
Proof.
  intros (sg & wo & X & R). pose proof R as [G1 G2 G3 G4 G5].
  assert (DNK : forall f, aget n0 (d_nt (y_d s1)) = Some f -> n_down f = true -> forall k,
            dn k (d_set_nt (y_d s1) (aset n0 {| n_spec := n_spec f; n_down := true; n_sdsent := n_sdsent f;
                                                n_closed := true |} (d_nt (y_d s1)))) = dn k (y_d s1)).
  { intros f Ef Edn k. destruct (Nat.eq_dec k n0) as [->|Hk].
    - rewrite dn_aset_eq, (dn_of_flag _ _ _ Ef), Edn. reflexivity.
    - apply dn_aset_neq. exact Hk. }
  destruct (in_dec Nat.eq_dec n0 wo) as [Hin|Hni].
  - unfold close_if_dead. destruct (mem_nat n0 (y_dead s1)) eqn:Hd; [|exists sg, wo; auto].
    destruct (aget n0 (d_nt (y_d s1))) as [f|] eqn:Ef; [|exists sg, wo; auto].
    destruct (n_down f) eqn:Edn; [|exists sg, wo; auto].
    eexists (set_d sg _), wo. split; [|apply GR_set_d; [exact R|apply DNK; auto]].
    rewrite <- G1 in *. apply XE_dead_flag with (f := f); auto. apply (wo_dead _ _ _ (G4 n0 Hin)).
  - exists (close_if_dead sg n0), wo. split; [apply close_if_dead_XE; exact X|].
    unfold close_if_dead. rewrite (sy_dead _ _ _ (G5 n0 Hni)), G1.
    destruct (mem_nat n0 (y_dead s1)); [|exact R].
    destruct (aget n0 (d_nt (y_d s1))) as [f|] eqn:Ef; [|exact R].
    destruct (n_down f) eqn:Edn; [|exact R].
    apply GR_set_d; [exact R|apply DNK; auto].
Qed.

Lemma ge_recv s n0 m rest d' outs r :
  GInvE c s -> aget n0 (y_up s) = Some (m :: rest) ->
  process_from_remote n0 m (y_d s) = (d', outs, r) ->
  exists evs, r = Ok evs /\
  GInvE c (set_evq (apply_outs (set_d {| y_d := y_d s; y_evq := y_evq s; y_down := y_down s;
                                         y_up := aset n0 rest (y_up s); y_w := y_w s; y_dead := y_dead s;
                                         y_result := y_result s |} d') outs)
                   (y_evq s ++ evs)).
Proof.
  intros (sg & wo & X & R) Eup Ep. pose proof R as [G1 G2 G3 G4 G5].
  pose proof (alist_get_some [] _ _ _ Eup) as Eup'.
  (* generic conclusion: the real state after the step, with any wire down for n0 *)
  assert (FIN : forall sg1 wo1 yd evs d2,
     XE c sg1 -> y_d sg1 = d2 -> y_evq sg1 = y_evq s ++ evs -> y_result sg1 = y_result s ->
     (forall k, k <> n0 -> dn k d2 = dn k (y_d s)) ->
     (forall n, n <> n0 -> alist_get [] n yd = alist_get [] n (y_down s)) ->
     (forall n, n <> n0 -> same_at sg sg1 n) -> (forall n, n <> n0 -> (In n wo1 <-> In n wo)) ->
     let s' := {| y_d := d2; y_evq := y_evq s ++ evs; y_down := yd; y_up := aset n0 rest (y_up s);
                  y_w := y_w s; y_dead := y_dead s; y_result := y_result s |} in
     (In n0 wo1 -> WoN s' sg1 n0) -> (~ In n0 wo1 -> SyncN s' sg1 n0) -> GInvE c s').
  { intros sg1 wo1 yd evs d2 X1 E1 E2 E3 Hdn Hyd Hsg Hwo s' Hw Hy. exists sg1, wo1. split; [exact X1|].
    apply (GR_local s sg wo s' sg1 wo1 n0 R); auto.
    intros n Hn. unfold same_at, s'. cbn [y_w y_down y_up y_dead]. rewrite alist_get_aset_neq by exact Hn. auto. }
  destruct (in_dec Nat.eq_dec n0 wo) as [Hin|Hni].
  - destruct (G4 n0 Hin) as [W1 W2 W3 W4]. destruct W2 as (wg & cur & nxt & sc & Ewg & Phg).
    destruct W4 as [(Hdn & pre & post & U1 & U2)|(Hdn & U2)].
    + rewrite Eup' in U1. destruct pre as [|m' pre'].
      * (* the garbled report is read: the worker is written off *)
        cbn [app] in U1. inv U1.
        assert (Hne : alist_get [] n0 (y_up sg) <> []) by (rewrite U2; discriminate).
        destruct (ghost_wireX c sg n0 wg X W3 Ewg Hne) as (f & Ef & Hdf). rewrite G1 in Ef.
        destruct (d_node_shutdown n0 (y_d s)) as [[d1 o1] r1] eqn:Hs.
        destruct (d_node_shutdown_ok _ _ _ _ _ _ Ef Hs) as (-> & CASES).
        assert (XA : XE c (set_d sg d1) /\ exists f1, aget n0 (d_nt d1) = Some f1 /\ n_down f1 = false /\
                     (forall k, dn k d1 = dn k (y_d s)) /\ d_next_gw d1 = d_next_gw (y_d s)).
        { destruct CASES as [(-> & _)|(-> & _)].
          - split; [rewrite <- G1, set_d_same; exact X|]. exists f. auto.
          - split.
            + rewrite <- G1 in *. eapply (XE_dead_sdsent c sg n0 f wg cur nxt sc); eauto.
            + exists (sd_mark f). split; [rewrite d_nt_set; apply aget_aset_eq|]. split; [exact Hdf|].
              split; [|reflexivity]. intros k. destruct (Nat.eq_dec k n0) as [->|Hk].
              * rewrite dn_aset_eq, (dn_of_flag _ _ _ Ef). reflexivity.
              * apply dn_aset_neq. exact Hk. }
        destruct XA as (XA & f1 & Ef1 & Hdf1 & DN1 & GW1).
        destruct (process_from_remote n0 UEnd d1) as [[d2 o2] r2] eqn:Ep2.
        assert (EupA : aget n0 (y_up (set_d sg d1)) = Some [UEnd]).
        { cbn [set_d y_up]. apply alist_get_cons_aget. exact U2. }
        destruct (step_recvX c Hpos Hrq (set_d sg d1) n0 UEnd [] d2 o2 r2 XA EupA Ep2) as (-> & evs & -> & X' & _).
        rewrite (pfr_bad _ _ _ _ _ Ef Hdf Hs f1 Ef1 Hdf1 _ _ _ Ep2) in Ep. inv Ep.
        destruct (pfr_spec _ _ _ _ _ _ _ Ep2 Ef1) as (_ & GW2 & _ & DNo & DNn & _).
        exists evs. split; [reflexivity|].
        assert (CL : forall yd, (forall n, n <> n0 -> alist_get [] n yd = alist_get [] n (y_down s)) ->
                 GInvE c {| y_d := d'; y_evq := y_evq s ++ evs; y_down := yd; y_up := aset n0 post (y_up s);
                            y_w := y_w s; y_dead := y_dead s; y_result := y_result s |}).
        { intros yd Hyd. eapply (FIN _ wo yd evs d'); [exact X'|reflexivity| |exact G3| |exact Hyd| |tauto| |contradiction].
          - cbn [set_evq set_d y_evq]. rewrite G2. reflexivity.
          - intros k Hk. rewrite (DNo k Hk). apply DN1.
          - intros n Hn. same_tac Hn.
          - intros _. constructor; cbn [y_w y_d y_up set_evq set_d y_dead].
            + exact W1.
            + exists wg, cur, nxt, sc. auto.
            + exact W3.
            + right. split; [rewrite DNn; apply orb_true_r|apply alist_get_aset_eq]. }
        rewrite app_nil_r. destruct CASES as [(_ & ->)|(_ & [->| ->])]; cbn [apply_outs set_d set_evq y_evq y_d y_dead].
        -- apply CL. auto.
        -- apply CL. auto.
        -- destruct (mem_nat n0 (y_dead s)); cbn [apply_outs set_evq y_evq].
           ++ apply CL. auto.
           ++ apply CL. intros n Hn. cbn [y_down]. apply alist_get_aset_neq. exact Hn.
      * (* an audible message of a worker that will be written off *)
        cbn [app] in U1. inv U1.
        assert (EupG : aget n0 (y_up sg) = Some (m' :: pre' ++ [UEnd])) by (apply alist_get_cons_aget; exact U2).
        rewrite <- G1 in Ep.
        destruct (step_recvX c Hpos Hrq sg n0 m' _ d' outs r X EupG Ep) as (-> & evs & -> & X' & _).
        assert (Hne : alist_get [] n0 (y_up sg) <> []) by (rewrite U2; discriminate).
        destruct (ghost_wireX c sg n0 wg X W3 Ewg Hne) as (f & Ef & Hdf).
        destruct (pfr_spec _ _ _ _ _ _ _ Ep Ef) as (_ & GW2 & _ & DNo & _ & _).
        exists evs. split; [reflexivity|]. cbn [apply_outs set_d].
        eapply (FIN _ wo (y_down s) evs d'); [exact X'|reflexivity| |exact G3| |auto| |tauto| |contradiction].
        -- cbn [set_evq set_d y_evq]. rewrite G2. reflexivity.
        -- intros k Hk. rewrite (DNo k Hk), G1. reflexivity.
        -- intros n Hn. same_tac Hn.
        -- intros _. constructor; cbn [y_w y_d y_up set_evq set_d y_dead].
           ++ exact W1.
           ++ exists wg, cur, nxt, sc. auto.
           ++ exact W3.
           ++ left. assert (Hne' : alist_get [] n0 (y_up (set_evq (set_d {| y_d := y_d sg; y_evq := y_evq sg; y_down := y_down sg;
                  y_up := aset n0 (pre' ++ [UEnd]) (y_up sg); y_w := y_w sg; y_dead := y_dead sg; y_result := y_result sg |} d')
                  (y_evq sg ++ evs))) <> []).
              { cbn [set_evq set_d y_up]. rewrite alist_get_aset_eq. destruct pre'; discriminate. }
              destruct (ghost_wireX c _ n0 wg X' W3 Ewg Hne') as (f2 & Ef2 & Hdf2). cbn [set_evq set_d y_d] in Ef2.
              split; [rewrite (dn_of_flag _ _ _ Ef2); exact Hdf2|]. exists pre', post.
              rewrite !alist_get_aset_eq. auto.
    + (* a written-off worker: the message is dropped *)
      unfold dn in Hdn. destruct (aget n0 (d_nt (y_d s))) as [f|] eqn:Ef; [|discriminate].
      rewrite (pfr_down _ _ _ _ Ef Hdn) in Ep. inv Ep. exists []. split; [reflexivity|].
      cbn [apply_outs set_d].
      eapply (FIN sg wo (y_down s) [] (y_d s)); [exact X|exact G1|rewrite app_nil_r; exact G2|exact G3|auto|auto| |tauto| |contradiction].
      * intros n Hn. apply same_at_refl.
      * intros _. constructor; cbn [y_w y_d y_up y_dead].
        -- exact W1.
        -- exists wg, cur, nxt, sc. auto.
        -- exact W3.
        -- right. split; [rewrite (dn_of_flag _ _ _ Ef); exact Hdn|exact U2].
  - (* a worker in sync *)
    destruct (G5 n0 Hni) as [S1 S2 S3 S4]. rewrite Eup' in S3.
    assert (EupG : aget n0 (y_up sg) = Some (m :: rest)) by (apply alist_get_cons_aget; exact S3).
    rewrite <- G1 in Ep.
    destruct (step_recvX c Hpos Hrq sg n0 m rest d' outs r X EupG Ep) as (-> & evs & -> & X' & _).
    assert (DNo : forall k, k <> n0 -> dn k d' = dn k (y_d sg)).
    { destruct (aget n0 (d_nt (y_d sg))) as [f|] eqn:Ef.
      - destruct (pfr_spec _ _ _ _ _ _ _ Ep Ef) as (_ & _ & _ & Bq & _ & _). exact Bq.
      - exfalso. unfold process_from_remote in Ep. rewrite mbind_get, Ef in Ep. cbn in Ep. inv Ep. }
    exists evs. split; [reflexivity|]. cbn [apply_outs set_d].
    eapply (FIN _ wo (y_down s) evs d'); [exact X'|reflexivity| |exact G3| |auto| |tauto|contradiction|].
    + cbn [set_evq set_d y_evq]. rewrite G2. reflexivity.
    + intros k Hk. rewrite (DNo k Hk), G1. reflexivity.
    + intros n Hn. same_tac Hn.
    + intros _. constructor; cbn [y_w y_down y_up y_dead set_evq set_d]; rewrite ?alist_get_aset_eq; auto.
Qed.
End StepsE.

(* ====================================================================================== *)
(* 3. every step, every schedule; C17                                                      *)
(* ====================================================================================== *)
Definition ErrGE (s : sys) : Prop := y_result s = Some (RError ERuntimeNoWorkers).

Section MainE.
Variable c : config.
Hypothesis Hmode : c_mode c = MEach.
Hypothesis Hpos : 0 < c_numnodes c.
Hypothesis Hcoh : forall n, ncollected (c_oracle c n) = length (c_coll c n).
Hypothesis Hrq : c_requeue c = 0.

Lemma ginve_res s e : GInvE c s -> y_result s <> Some (RError e).
Proof. intros (sg & wo & X & R). rewrite <- (gr_r _ _ _ R). apply (xe_res _ _ X). Qed.

Lemma ginve_init : GInvE c (sys_init c).
Proof.
  exists (sys_init c), []. split.
  - exact (XE_init c Hmode Hpos Hrq).
  - constructor; auto.
    + intros n [].
    + intros n _. constructor; auto. cbn [sys_init y_w].
      destruct (aget n (map (fun n0 => (n0, w_init)) (seq 0 (c_numnodes c)))) as [w|] eqn:E; [|reflexivity].
      apply aget_map_const in E. subst w. reflexivity.
Qed.

Lemma ge_step s l s' o w :
  GInvE c s -> sys_step c s l = Some (s', o, w) -> GInvE c s' \/ ErrGE s'.
Proof.
  intros GI H. unfold sys_step in H. destruct (y_result s) eqn:Eres; [discriminate|].
  destruct l as [n0|n0|n0|n0| |n0].
  - destruct (mem_nat n0 (y_dead s)) eqn:Hd; [discriminate|].
    destruct (aget n0 (y_down s)) as [[|cmd rest]|] eqn:Ed; try discriminate.
    destruct (aget n0 (y_w s)) as [w0|] eqn:Ew; try discriminate.
    inv H. left. rewrite <- Eres. apply ge_deliver; assumption.
  - destruct (mem_nat n0 (y_dead s)) eqn:Hd; [discriminate|].
    destruct (aget n0 (y_w s)) as [w0|] eqn:Ew; try discriminate.
    destruct (negb (wcb w0)); [discriminate|].
    destruct (recv_step (c_oracle c n0) w0) as [w' evs] eqn:Es. inv H. left.
    eapply ge_recvw; eauto.
  - destruct (mem_nat n0 (y_dead s)) eqn:Hd; [discriminate|].
    destruct (aget n0 (y_w s)) as [w0|] eqn:Ew; try discriminate.
    destruct (dies_now c n0 w0) eqn:Edie.
    + inv H. left.
      apply ge_crash with (w0 := w0); auto. unfold dies_now in Edie. destruct (wph w0); discriminate.
    + destruct (main_step (c_oracle c n0) w0) as [[w' evs]|] eqn:Es; [|discriminate]. inv H. left.
      eapply ge_main; eauto.
  - destruct (aget n0 (y_up s)) as [[|m rest]|] eqn:Eup; try discriminate.
    cbn [y_d] in H.
    destruct (process_from_remote n0 m (y_d s)) as [[d' outs] r] eqn:Ep.
    destruct (ge_recv c Hpos Hrq s n0 m rest d' outs r GI Eup Ep) as (evs & -> & GI').
    destruct (apply_outs_frame outs (set_d {| y_d := y_d s; y_evq := y_evq s; y_down := y_down s; y_up := aset n0 rest (y_up s);
                       y_w := y_w s; y_dead := y_dead s; y_result := y_result s |} d')) as (F1 & F2 & F3).
    rewrite <- Eres in H. rewrite F1 in H. cbn [set_d y_evq] in H.
    injection H as <- <- <-. left. apply ge_close; assumption.
  - destruct (d_active (y_d s)) as [|a0 ar] eqn:Eact.
    { destruct (d_no_active (y_d s)) as [[d' outs] r]. inv H. right. reflexivity. }
    destruct (y_evq s) as [|ev q] eqn:Eevq; [discriminate|].
    destruct (d_loop_once ev (y_d s)) as [[d' outs] r] eqn:El.
    destruct (ge_ctl c Hpos Hrq s ev q d' outs r GI Eres Eevq El) as (-> & CORE).
    set (s1 := apply_outs (set_d (set_evq s q) d') outs) in *.
    destruct (d_session_finished d') eqn:Efin.
    + inv H. left. apply CORE.
      * intros e. destruct (d_shouldstop d'); discriminate.
      * destruct (d_shouldstop d'); discriminate.
      * destruct (d_shouldstop d') eqn:Ess; [discriminate|]. intros _. split; reflexivity.
    + destruct (d_active d') as [|b0 br] eqn:Eact'.
      * destruct (d_no_active d') as [[d2 outs2] r2]. inv H. right. reflexivity.
      * inv H. left.
        assert (Er1 : y_result s1 = None) by (unfold s1; rewrite apply_outs_result; cbn; exact Eres).
        rewrite <- (set_result_same' s1 None Er1). apply CORE.
        -- intros e. discriminate.
        -- intros _. discriminate.
        -- discriminate.
  - destruct (mem_nat n0 (y_dead s)) eqn:Hd; [discriminate|].
    destruct (aget n0 (y_w s)) as [w0|] eqn:Ew; try discriminate.
    destruct (wph w0) eqn:Eph; try discriminate; inv H; left;
      (apply ge_crash with (w0 := w0); auto; rewrite Eph; discriminate).
Qed.

Lemma erre_stays ls : forall s, ErrGE s ->
  ErrGE (fold_left (fun s l => match sys_step c s l with Some (s', _, _) => s' | None => s end) ls s).
Proof.
  induction ls as [|l ls IH]; intros s A; cbn [fold_left]; [exact A|].
  assert (E : sys_step c s l = None) by (unfold sys_step; rewrite A; reflexivity).
  rewrite E. apply IH. exact A.
Qed.

(* every reachable state has a ghost that satisfies the crash invariant, or is the state in which the
   controller has just raised "no active workers" *)
Theorem ginve_run ls : GInvE c (sys_run c ls) \/ ErrGE (sys_run c ls).
Proof.
  unfold sys_run.
  assert (G : forall s, GInvE c s \/ ErrGE s ->
     let s' := fold_left (fun s l => match sys_step c s l with Some (s', _, _) => s' | None => s end) ls s in
     GInvE c s' \/ ErrGE s').
  { induction ls as [|l ls IH]; intros s Hs; cbn [fold_left]; [exact Hs|].
    destruct (sys_step c s l) as [[[s' o] w]|] eqn:E; [|apply IH; exact Hs].
    destruct Hs as [Hs|Hr].
    - destruct (ge_step s l s' o w Hs E) as [A|A].
      + apply IH. left. exact A.
      + right. apply erre_stays. exact A.
    - unfold sys_step in E. rewrite Hr in E. discriminate. }
  apply G. left. apply ginve_init.
Qed.

(* C17 for --dist each without no_garbled *)
Theorem garbled_each_c17 ls : forall e, y_result (sys_run c ls) = Some (RError e) -> e = ERuntimeNoWorkers.
Proof.
  intros e H. destruct (ginve_run ls) as [G|R].
  - exfalso. exact (ginve_res _ e G H).
  - unfold ErrGE in R. congruence.
Qed.

Corollary garbled_each_no_other_exception ls : forall e,
  e <> ERuntimeNoWorkers -> y_result (sys_run c ls) <> Some (RError e).
Proof. intros e Hne He. apply Hne. apply (garbled_each_c17 ls). exact He. Qed.
End MainE.

Check ginve_run.
Print Assumptions ginve_run.
Check garbled_each_c17.
Print Assumptions garbled_each_c17.

(* ====================================================================================== *)
(* 4. non-vacuity: sessions with an undecodable report (and a crash), evaluated            *)
(* ====================================================================================== *)
Open Scope string_scope.
(* worker 1 sends an undecodable report while running test 1; the replacement worker 2 dies entering test 3 *)
Definition gex_cfg (mr : option Z) (strict : bool) : config :=
  {| c_mode := MEach; c_numnodes := 2; c_chunk := None; c_maxfail := 0%Z; c_max_restart := mr;
     c_requeue := 0; c_coll := cex4;
     c_oracle := fun n => {| reports_of := fun i => if Nat.eqb n 1 && Nat.eqb i 1 then [Passed; Garbled; Failed] else [Passed];
                             stops_after := fun _ => false; ncollected := 4; coll_reports := [] |};
     c_dur := fun _ => 0%Z; c_crash_in := fun n i => Nat.eqb n 2 && Nat.eqb i 3; c_strict := strict; c_spec := fun _ => 0 |}.

(* the hypotheses of garbled_each_c17 hold, no_garbled (needed by crash_each_c17) does not *)
Example gex_hyps mr strict :
  let c := gex_cfg mr strict in
  c_mode c = MEach /\ 0 < c_numnodes c /\ (forall n, ncollected (c_oracle c n) = length (c_coll c n)) /\
  c_requeue c = 0 /\ ~ no_garbled c.
Proof.
  cbv zeta. split; [reflexivity|]. split; [cbn; lia|]. split; [intros n; reflexivity|]. split; [reflexivity|].
  intros H. apply (H 1 1). cbn. auto.
Qed.

(* mid-run: worker 1 has been written off (its errordown has been handled: its remainder [2;3] is in
   _removed2pending, the replacement 2 is collecting) although its process is alive (y_dead = []) and
   still running test 1 *)
Example gex_mid :
  cex_view (sys_run (gex_cfg (Some 4%Z) false) (c01_rep 16 (cex_round 5))) =
  ([(0, [0; 1], PWaitNext (2, 2)); (1, [0; 1], PRun (1, 1) (2, Idx 2) [ELogFinish 1]); (2, [], PColl [])],
   None, [], ([(0, [2; 3]); (2, [])], [(1, [2; 3])], [0; 1])).
Proof. vm_compute. reflexivity. Qed.

(* the whole session: the replacement 2 inherits [2;3], runs 2 and dies entering 3; replacement 3 has
   nothing to take over; the session ends "finished" (the written-off process of worker 1 went on
   running 2 and 3 unheard) *)
Example gex_run strict :
  cex_view (sys_run (gex_cfg (Some 4%Z) strict) (c01_rep 80 (cex_round 5))) =
  ([(0, [0; 1; 2; 3], PExited); (1, [0; 1; 2; 3], PExited); (2, [2], PGot (1, 3) (2, Mark)); (3, [], PExited)],
   Some RFinished, [2], ([], [], [0; 1; 2])).
Proof. destruct strict; vm_compute; reflexivity. Qed.

Example gex_theorem_applies mr strict ls : forall e,
  y_result (sys_run (gex_cfg mr strict) ls) = Some (RError e) -> e = ERuntimeNoWorkers.
Proof.
  destruct (gex_hyps mr strict) as (H1 & H2 & H3 & H4 & _). exact (garbled_each_c17 _ H1 H2 H3 H4 ls).
Qed.

(* the documented exception is reachable with an undecodable report and no process failure at all: the
   replacement of the written-off worker 1 collects a different list, inherits nothing and is shut down;
   when the last worker has finished the loop raises "no active workers" (the stand-off of
   CrashEachTheorems.cex_standoff, reached without any crash: y_dead = []) *)
Definition gex_cfg_dis : config :=
  {| c_mode := MEach; c_numnodes := 2; c_chunk := None; c_maxfail := 0%Z; c_max_restart := Some 4%Z;
     c_requeue := 0; c_coll := cex_dis;
     c_oracle := fun n => {| reports_of := fun i => if Nat.eqb n 1 && Nat.eqb i 1 then [Garbled] else [Passed];
                             stops_after := fun _ => false; ncollected := length (cex_dis n); coll_reports := [] |};
     c_dur := fun _ => 0%Z; c_crash_in := fun n i => false; c_strict := false; c_spec := fun _ => 0 |}.
Example gex_standoff :
  cex_view (sys_run gex_cfg_dis (c01_rep 60 (cex_round 4))) =
  ([(0, [0; 1; 2; 3], PExited); (1, [0; 1; 2; 3], PFinishing false); (2, [], PExited)],
   Some (RError ERuntimeNoWorkers), [], ([], [(1, [2; 3])], [0; 1; 2])).
Proof. vm_compute. reflexivity. Qed.
