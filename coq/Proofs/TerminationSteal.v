(* TerminationSteal.v -- property C02 for --dist worksteal, the termination half.

   PROVED here:
   (1) muw, a measure on the states of Model/System.v (mode MSteal), and step_muw: every useful enabled
       non-crash move (Progress.useful) makes muw strictly smaller, EXCEPT a controller iteration that
       issues a steal request, which may raise it by at most the price of that request
       (stealcost: 5 + the pool price of the requested tests).  Everything else about a withdrawal
       round trip goes down: delivering the request, executing it, sending the reply, reading it,
       putting the tests back into the pool and sending them out again.
   (2) hence (useful_run_bound_ws) a run of useful moves is at most
         muw (initial state) + the prices of the steal requests issued along it
       long; in particular a run along which k requests are issued is at most muw0 + k * stealmax long.
   (3) c02_ws_maximal_run_ends: a run of useful moves that cannot be extended by a useful move has
       ended the session (from ProgressSteal.c02_ws_no_deadlock_useful).

   NOT proved (stated at the end, with the argument and with evaluated evidence): a bound on the
   NUMBER of steal requests issued along a run.  See the section "What is missing". *)
From XV Require Import Base Worker Ctl SchedLoad SchedSteal SchedScope SchedEach Sched DSession System
  NoHook DSessionProofs WorkerProofs StealProofs LoadProofs FifoProofs ExactlyOnce Coupling ExactlyOnceSteal
  CouplingSteal CompletenessSteal Completeness Progress Termination ProgressSteal.
From XV Require LivenessLaws.
From Coq Require Import Permutation.
Open Scope nat_scope.

(* ====================================================================================== *)
(* the measure                                                                             *)
(* ====================================================================================== *)
Section MuW.
Variable c : config.
Notation N := (c_numnodes c).

(* a steal request carries the pool price of the tests it names: they may come back to the pool *)
Definition stx (cm : cmd) : nat := match cm with CSteal ixs => 3 + sumf (pcost c) ixs | _ => 0 end.
Definition rplcost (r : option (list nat)) : nat :=
  match r with Some l => 3 + sumf (pcost c) l | None => 0 end.
Definition upx (m : upmsg) : nat := match m with UEv (EUnscheduled l) => sumf (pcost c) l | _ => 0 end.
Definition evx (ev : cevent) : nat := match ev with QUnscheduled _ l => sumf (pcost c) l | _ => 0 end.

Definition wpotw (n : nat) (w : wst) : nat := wpot c n w + sumf stx (winbox w) + rplcost (wreply w).
Definition dcostw (n : nat) (cs : list cmd) : nat := dcost c n cs + sumf stx cs.
Definition nodepotw (s : sys) (n : nat) : nat :=
  2 * length (alist_get [] n (y_up s)) + sumf upx (alist_get [] n (y_up s)) +
  dcostw n (alist_get [] n (y_down s)) +
  match aget n (y_w s) with Some w => wpotw n w | None => 0 end.

Definition poolpotw (ws : wsstate) : nat :=
  match ws_coll ws with None => prepool c | Some _ => sumf (pcost c) (ws_pending ws) end.
Definition sdnw (ws : wsstate) (n : nat) : nat :=
  match option_map n_sdsent (aget n (ws_nt ws)) with Some false => SDC | _ => 0 end.
Definition ctlpotw (d : dstate) : nat :=
  match d_sched d with StW ws => poolpotw ws + sumf (sdnw ws) (seq 0 N) | _ => 0 end.

Definition muw (s : sys) : nat :=
  ctlpotw (y_d s) + length (y_evq s) + sumf evx (y_evq s) + sumf (nodepotw s) (seq 0 N).

(* the price of the steal requests among the outputs of a step *)
Definition stealprice (o : out) : nat :=
  match o with OSend _ (CSteal ixs) => 5 + sumf (pcost c) ixs | _ => 0 end.
Definition stealcost (outs : list out) : nat := sumf stealprice outs.
End MuW.

(* ====================================================================================== *)
(* sums                                                                                    *)
(* ====================================================================================== *)
Lemma sumf_filter_le {A} (f : A -> nat) (p : A -> bool) l : sumf f (filter p l) <= sumf f l.
Proof.
  induction l as [|a l IH]; [apply le_n|]. cbn [filter]. destruct (p a); rewrite ?sumf_cons; lia.
Qed.

Lemma sumf_nodup_incl (f : nat -> nat) l : forall s, NoDup l -> incl l s -> sumf f l <= sumf f s.
Proof.
  induction l as [|a l IH]; intros s ND Hi; [cbn; lia|]. inversion ND as [|a' l' Hna ND']; subst.
  assert (Ha : In a s) by (apply Hi; left; reflexivity).
  destruct (in_split _ _ Ha) as (s1 & s2 & ->).
  assert (Hi' : incl l (s1 ++ s2)).
  { intros x Hx. assert (X : In x (s1 ++ a :: s2)) by (apply Hi; right; exact Hx).
    apply in_app_or in X. apply in_or_app. destruct X as [X|[X|X]]; [left; exact X| |right; exact X].
    subst x. contradiction. }
  specialize (IH (s1 ++ s2) ND' Hi'). rewrite sumf_cons, !sumf_app, sumf_cons in *. lia.
Qed.

Lemma sumf_indicator (k x : nat) l : NoDup l -> sumf (fun n => if Nat.eqb k n then x else 0) l <= x.
Proof.
  induction l as [|a l IH]; intros ND; [cbn; lia|]. inversion ND as [|a' l' Hna ND']; subst.
  rewrite sumf_cons. destruct (Nat.eqb k a) eqn:E.
  - apply Nat.eqb_eq in E. subst a.
    assert (Z : sumf (fun n => if Nat.eqb k n then x else 0) l = 0).
    { clear IH ND ND'. induction l as [|b l IH]; [reflexivity|]. rewrite sumf_cons.
      destruct (Nat.eqb k b) eqn:E; [apply Nat.eqb_eq in E; subst b; exfalso; apply Hna; left; reflexivity|].
      rewrite IH; [reflexivity|]. intros H. apply Hna. right. exact H. }
    lia.
  - specialize (IH ND'). lia.
Qed.

(* ====================================================================================== *)
(* the worker                                                                              *)
(* ====================================================================================== *)
Section WorkerW.
Variable c : config.
Notation N := (c_numnodes c).

(* a successful steal takes entries out of the queue; what it answers is named by the request *)
Lemma ents_idx_filter_nodup (p : qent -> bool) q : NoDup (ents_idx q) -> NoDup (ents_idx (filter p q)).
Proof.
  induction q as [|e q IH]; cbn [ents_idx filter]; [auto|]. intros ND.
  assert (SUB : forall i, In i (ents_idx (filter p q)) -> In i (ents_idx q)).
  { clear. induction q as [|e q IH]; cbn [filter ents_idx]; [auto|]. intros i.
    destruct (p e); cbn [ents_idx]; destruct (ent_idx e); cbn [In]; intros H; auto.
    destruct H as [H|H]; [left; exact H|right; auto]. }
  destruct (p e); cbn [ents_idx]; destruct (ent_idx e) as [i|]; [|auto| |auto].
  - inversion ND as [|x l Hn ND']; subst. constructor; [intros H; apply Hn; apply SUB; exact H|apply IH; exact ND'].
  - inversion ND as [|x l Hn ND']; subst. apply IH. exact ND'.
Qed.

Lemma steal_price n q s q' st :
  NoDup (ents_idx q) -> steal_q q s = (q', st) ->
  sumf (qcost c n) q' <= sumf (qcost c n) q /\ sumf (pcost c) (ents_idx st) <= sumf (pcost c) s.
Proof.
  intros ND H. unfold steal_q in H.
  destruct (Nat.eqb (length (filter (ent_in s) q)) (length (dedup_nat [] s))); inv H.
  - split; [apply sumf_filter_le|]. apply sumf_nodup_incl.
    + apply ents_idx_filter_nodup. exact ND.
    + intros i Hi. apply in_ents_idx_filter in Hi. tauto.
  - split; [apply le_n|]. cbn. lia.
Qed.

Lemma recv_next_potw o n inbox : forall w,
  Forall good_cmd_ws inbox -> wreply w = None -> NoDup (ents_idx (wq w)) ->
  let w' := recv_next o w inbox in
  sumf (qcost c n) (wq w') + sumf (rcost c n) (wrpend w') + sumf (cmdcost c n) (winbox w') +
    sumf (stx c) (winbox w') + rplcost c (wreply w') + (match inbox with [] => 0 | _ => 1 end)
  <= sumf (qcost c n) (wq w) + sumf (cmdcost c n) inbox + sumf (stx c) inbox.
Proof.
  induction inbox as [|cm r IH]; intros w G Er ND; cbv zeta.
  - cbn [recv_next upd_recv wq wrpend winbox wreply]. rewrite Er, !sumf_nil. cbn. lia.
  - inversion G as [|c' r' Gc Gr]; subst. destruct cm as [ixs| |s| |]; try contradiction.
    + destruct ixs as [|i ixs].
      * cbn [recv_next]. specialize (IH w Gr Er ND). cbv zeta in IH. rewrite !sumf_cons. unfold cmdcost at 2.
        cbn [cmd_items map stx]. rewrite sumf_nil. destruct r; lia.
      * cbn [recv_next upd_recv w_put wq wrpend winbox wreply]. rewrite Er, sumf_app, !sumf_cons, sumf_nil.
        unfold cmdcost at 2. cbn [cmd_items map stx rplcost]. rewrite sumf_cons. unfold qcost at 2, rcost at 2.
        cbn [snd icost]. lia.
    + cbn [recv_next]. unfold w_steal. destruct (steal_q (wq w) s) as [q' st] eqn:Es.
      destruct (steal_price n _ _ _ _ ND Es) as (Hq & Hp).
      cbn [upd_recv wq wrpend winbox wreply rplcost]. rewrite !sumf_cons, sumf_nil.
      unfold cmdcost at 2. cbn [cmd_items stx]. rewrite sumf_nil. lia.
    + cbn [recv_next upd_recv w_put wq wrpend winbox wreply]. rewrite Er, sumf_app, !sumf_cons, !sumf_nil.
      unfold cmdcost at 2. cbn [cmd_items stx rplcost]. rewrite sumf_cons, sumf_nil. unfold qcost at 2, rcost.
      cbn [snd icost]. lia.
    + cbn [recv_next upd_recv w_put wq wrpend winbox wreply]. rewrite Er, sumf_app, !sumf_cons, !sumf_nil.
      unfold cmdcost at 2. cbn [cmd_items stx rplcost]. rewrite sumf_cons, sumf_nil. unfold qcost at 2, rcost.
      cbn [snd icost]. lia.
Qed.

(* the price of what a worker step puts on its wire *)
Definition upcost (n : nat) (evs : list wevent) : nat :=
  2 * length evs + sumf (upx c) (map (up_of_wevent c n) evs).

Lemma recv_step_potw o n w :
  Forall good_cmd_ws (winbox w) -> NoDup (ents_idx (wq w)) -> recv_busy w = true ->
  wpotw c n (fst (recv_step o w)) + upcost n (snd (recv_step o w)) + 1 <= wpotw c n w.
Proof.
  intros G ND Hb. unfold recv_busy in Hb. apply andb_true_iff in Hb. destruct Hb as (Ecb & Hb).
  apply negb_true_iff in Hb.
  destruct (recv_step_cb o w) as (Ep & Ec). unfold wpotw, wpot. rewrite (phpot_ext c n _ _ Ep Ec).
  unfold recv_step. rewrite Ecb. cbn [negb].
  set (evs := match wreply w with Some ixs => [EUnscheduled ixs] | None => [] end).
  assert (Ev : upcost n evs + (match wreply w with Some _ => 1 | None => 0 end) = rplcost c (wreply w)).
  { unfold upcost, evs. destruct (wreply w) as [l|]; cbn [length map up_of_wevent rplcost]; [|reflexivity].
    rewrite sumf_cons, sumf_nil. cbn [upx]. lia. }
  cbn [upd_recv wrpend winbox].
  destruct (wrpend w) as [|it rest] eqn:Erp; cbn [fst snd].
  - pose proof (recv_next_potw o n (winbox w) (upd_recv w (winbox w) [] None) G eq_refl ND) as X. cbv zeta in X.
    cbn [upd_recv wq] in X. rewrite sumf_nil.
    destruct (winbox w) as [|cm r] eqn:Eib.
    + destruct (wreply w) as [l|] eqn:Erep; [|discriminate]. cbn [recv_next upd_recv wq wrpend winbox wreply rplcost] in *.
      rewrite !sumf_nil in *. lia.
    + destruct (wreply w); lia.
  - cbn [upd_recv w_put wq wrpend winbox wreply rplcost]. rewrite sumf_app, !sumf_cons, sumf_nil. unfold qcost at 2, rcost at 2.
    cbn [snd]. destruct (wreply w); lia.
Qed.

Lemma main_step_upx o n w w' evs :
  WX2 w -> main_step o w = Some (w', evs) -> sumf (upx c) (map (up_of_wevent c n) evs) = 0.
Proof.
  intros X H. unfold WX2 in X.
  ms_cases H; wprj; rewrite ?P in *; try (cbn; reflexivity).
  inversion X as [|e' sc' He Hsc]; subst. destruct e; try contradiction; try (cbn; reflexivity). destruct oc; reflexivity.
Qed.

Lemma main_step_potw n w w' evs :
  WX2 w -> main_step (c_oracle c n) w = Some (w', evs) -> wpotw c n w' + upcost n evs + 1 <= wpotw c n w.
Proof.
  intros X H. pose proof (main_step_pot c n w w' evs H) as Hp.
  destruct (main_step_frame _ _ _ _ H) as (_ & Ei & Er & _).
  unfold wpotw, upcost. rewrite Ei, Er, (main_step_upx _ _ _ _ _ X H). lia.
Qed.

Lemma deliver_potw n w cm : wpotw c n (deliver w cm) = wpotw c n w + cmdcost c n cm + stx c cm.
Proof.
  unfold wpotw. rewrite deliver_pot. unfold deliver. cbn [upd_recv winbox wreply].
  rewrite sumf_app, sumf_cons, sumf_nil. lia.
Qed.

End WorkerW.

(* ====================================================================================== *)
(* every useful move makes the measure smaller -- but for the price of a steal request      *)
(* ====================================================================================== *)
Section StepMuW.
Variable c : config.
Notation N := (c_numnodes c).
Hypothesis Hnc : forall n i, c_crash_in c n i = false.
Hypothesis Hng : no_garbled c.
Hypothesis Hne : forall k, ~ In ""%string (c_coll c k).

(* the queue of a worker never holds an index twice *)
Lemma nodup_queue P s n w : CInvG c P s -> aget n (y_w s) = Some w -> NoDup (ents_idx (wq w)).
Proof.
  intros CI Ew. destruct CI as [_ _ (ws & _ & NIs) _ _ _ _ _ _ _ _ _ _ _ _].
  pose proof (NIs n w Ew) as X. unfold NInvG in X.
  assert (ND : NoDup (owed_w w)).
  { destruct (P n).
    - pose proof (sub_nodup _ _ (sw_sub _ _ _ _ _ _ _ X) (sw_nd _ _ _ _ _ _ _ X)) as H.
      apply WorkerProofs.nodup_app_r in H. apply nodup_app_l in H. exact H.
    - exact (proj2 (coupled_nodup _ _ _ _ _ _ (nw_nd _ _ _ _ _ _ X) (nw_coupled _ _ _ _ _ _ X))). }
  unfold owed_w in ND. apply WorkerProofs.nodup_app_r in ND. apply nodup_app_l in ND. exact ND.
Qed.

(* only node n0's share changes *)
Lemma muw_node_step s s' n0 k :
  y_d s' = y_d s -> y_evq s' = y_evq s -> n0 < N ->
  (forall n, n <> n0 -> nodepotw c s' n = nodepotw c s n) ->
  nodepotw c s' n0 + k <= nodepotw c s n0 -> muw c s' + k <= muw c s.
Proof.
  intros Ed Eq HnN Hoth Hn0. unfold muw. rewrite Ed, Eq.
  pose proof (sumf_change_one (nodepotw c s) (nodepotw c s') (seq 0 N) n0 (seq_NoDup N 0)) as X.
  assert (Hin : In n0 (seq 0 N)) by (apply in_seq; lia).
  specialize (X Hin (fun n _ Hn => Hoth n Hn)). lia.
Qed.

Lemma nodepotw_push s n0 w' evs :
  nodepotw c (push_up (set_w s n0 w') n0 (map (up_of_wevent c n0) evs)) n0 =
  2 * length (alist_get [] n0 (y_up s)) + sumf (upx c) (alist_get [] n0 (y_up s)) + upcost c n0 evs +
  dcostw c n0 (alist_get [] n0 (y_down s)) + wpotw c n0 w'.
Proof.
  unfold nodepotw, upcost. cbn [push_up set_w y_up y_down y_w].
  rewrite FifoProofs.alist_get_aset_eq, FifoProofs.aget_aset_eq, app_length, map_length, sumf_app. lia.
Qed.

Lemma nodepotw_push_other s n0 w' ms n :
  n <> n0 -> nodepotw c (push_up (set_w s n0 w') n0 ms) n = nodepotw c s n.
Proof.
  intros Hn. unfold nodepotw. cbn [push_up set_w y_up y_down y_w].
  rewrite FifoProofs.alist_get_aset_neq, FifoProofs.aget_aset_neq by exact Hn. reflexivity.
Qed.

(* the controller's receiver thread queues at most one event per message, and an `unscheduled`
   message becomes an `unscheduled` event with the same indices *)
Lemma pfr_costw n m d d' o evs :
  ok_up m -> process_from_remote n m d = (d', o, Ok evs) -> length evs + sumf (evx c) evs <= 1 + upx c m.
Proof.
  intros Hm H.
  unfold process_from_remote, mbind, get, of_opt, ret, raise in H. cbn beta iota zeta in H.
  destruct (aget n (d_nt d)) as [f|] eqn:Ef; cbn beta iota zeta in H; [|discriminate].
  destruct (n_down f) eqn:Edn.
  { assert (H' : (d, @nil out, Ok (@nil cevent)) = (d', o, Ok evs)).
    { destruct m as [e|ids|sk|i ms|dec| | |]; exact H. }
    inv H'. cbn. lia. }
  destruct m as [e|ids|sk|i ms|dec| | |]; cbn [ok_up] in Hm; try contradiction.
  - destruct e; unfold put in H; cbn beta iota zeta in H; inv H; cbn; lia.
  - inv H. cbn. lia.
  - inv H. cbn. lia.
Qed.

(* ---- what the controller sends is covered by the pool, the shutdown budget, and the price of a request ---- *)
Definition stcmd (cm : cmd) : nat := match cm with CSteal ixs => 5 + sumf (pcost c) ixs | _ => 0 end.

Lemma NRW_costw n f cs f' :
  n < N -> NRW f cs f' -> Forall ne_cmd cs ->
  dcostw c n cs + sdterm f' <= sdterm f + sumf (pcost c) (flat_map cmd_inds cs) + sumf stcmd cs.
Proof.
  intros HnN R. induction R as [f|f ixs cs f' Hs R IH|f ixs cs f' Hs R IH|f cs f' Hs R IH]; intros Hnil.
  - unfold dcostw, dcost. cbn [flat_map]. rewrite !sumf_nil. lia.
  - inversion Hnil as [|x l Hx Hl]; subst. specialize (IH Hl). unfold dcostw, dcost in *. rewrite !sumf_cons.
    cbn [flat_map cmd_inds stx stcmd]. rewrite sumf_app. unfold cmdcost at 1. cbn [cmd_items].
    assert (Hi : ixs <> []) by (destruct ixs as [|i0 l0]; [exact (False_ind _ Hx)|discriminate]).
    pose proof (run_cost_le c n ixs HnN Hi). lia.
  - inversion Hnil as [|x l Hx Hl]; subst. specialize (IH Hl). unfold dcostw, dcost in *. rewrite !sumf_cons.
    cbn [flat_map cmd_inds stx stcmd app]. unfold cmdcost at 1. cbn [cmd_items].
    replace (sumf (rcost c n) []) with 0 by reflexivity. lia.
  - destruct (NRW_sdsent_true _ _ _ R eq_refl) as (-> & ->). unfold dcostw, dcost. rewrite !sumf_cons, !sumf_nil.
    unfold cmdcost. cbn [cmd_items flat_map cmd_inds stx stcmd]. rewrite sumf_cons, !sumf_nil.
    unfold rcost, sdterm, SDC. cbn. rewrite Hs. lia.
Qed.

Lemma sdnw_some ws n f : aget n (ws_nt ws) = Some f -> sdnw ws n = sdterm f.
Proof. intros E. unfold sdnw, sdterm. rewrite E. cbn. destruct (n_sdsent f); reflexivity. Qed.

(* the steal requests, counted node by node, are the steal requests among the outputs *)
Lemma stcmd_sum keys outs :
  NoDup keys -> sumf (fun n => sumf stcmd (cmds_to n outs)) keys <= stealcost c outs.
Proof.
  assert (Z : forall l : list nat, sumf (fun _ : nat => 0) l = 0) by (induction l as [|a l IHl]; [reflexivity|rewrite sumf_cons, IHl; reflexivity]).
  intros ND. induction outs as [|x outs IH].
  { rewrite (sumf_ext_in _ (fun _ => 0)) by reflexivity. rewrite Z. lia. }
  unfold stealcost in *. rewrite sumf_cons.
  assert (E : forall n, sumf stcmd (cmds_to n (x :: outs)) = sumf stcmd (cmd_to n x) + sumf stcmd (cmds_to n outs)).
  { intros n. cbn [cmds_to flat_map]. apply sumf_app. }
  rewrite (sumf_ext_in _ _ keys (fun n _ => E n)), sumf_add.
  assert (X : sumf (fun n => sumf stcmd (cmd_to n x)) keys <= stealprice c x).
  { destruct x as [h|m cm| |]; try (cbn [cmd_to]; rewrite (sumf_ext_in _ (fun _ => 0)) by reflexivity; rewrite Z; lia).
    assert (E2 : forall n, sumf stcmd (cmd_to n (OSend m cm)) = if Nat.eqb m n then stcmd cm else 0).
    { intros n. cbn [cmd_to]. destruct (Nat.eqb m n); [rewrite sumf_cons, sumf_nil; lia|reflexivity]. }
    rewrite (sumf_ext_in _ _ keys (fun n _ => E2 n)).
    eapply Nat.le_trans; [apply sumf_indicator; exact ND|]. destruct cm; cbn; lia. }
  lia.
Qed.

Theorem step_muw P s l s' o w :
  no_crash_label l -> useful s l = true -> CInvG c P s -> sys_step c s l = Some (s', o, w) ->
  muw c s' + 1 <= muw c s + stealcost c o.
Proof.
  intros Hl Hu CI H.
  pose proof CI as [Inv Ek (ws & DJd & NIs) Eq Eu Edn Ea Er Epm Efn Edw Ecl Eef Est Epo].
  pose proof Inv as [A B (ws0 & Els0 & Iw & T) D E E' F G].
  pose proof DJd as (J0 & Jss). pose proof J0 as [Els J Jb Jq Jg Jf].
  assert (ws0 = ws) by congruence. subst ws0.
  assert (WXall : forall n w0, aget n (y_w s) = Some w0 -> WX2 w0).
  { intros n w0 Ew. pose proof (NIs n w0 Ew) as X. unfold NInvG in X. destruct (P n).
    - unfold WX2. destruct (sw_ph _ _ _ _ _ _ _ X) as [Z|Z]; rewrite Z; exact I.
    - exact (nw_wx _ _ _ _ _ _ X). }
  unfold sys_step in H. destruct (y_result s) eqn:Eres; [discriminate|].
  destruct l as [n0|n0|n0|n0| |n0]; [| | | | |contradiction].
  - (* LDeliver *)
    replace (mem_nat n0 (y_dead s)) with false in H by (rewrite A; reflexivity).
    destruct (aget n0 (y_down s)) as [[|cmd rest]|] eqn:Ed; try discriminate.
    destruct (aget n0 (y_w s)) as [w0|] eqn:Ew; try discriminate.
    fin3 H s' o w. pose proof (worker_ltw c s n0 w0 Ek Ew) as HnN.
    assert (X : muw c {| y_d := y_d s; y_evq := y_evq s; y_down := aset n0 rest (y_down s); y_up := y_up s;
                         y_w := aset n0 (deliver w0 cmd) (y_w s); y_dead := y_dead s; y_result := y_result s |} + 1 <= muw c s).
    { apply (muw_node_step _ _ n0); auto.
      - intros n Hn. unfold nodepotw. cbn [y_up y_down y_w].
        rewrite FifoProofs.alist_get_aset_neq, FifoProofs.aget_aset_neq by exact Hn. reflexivity.
      - unfold nodepotw. cbn [y_up y_down y_w].
        rewrite FifoProofs.alist_get_aset_eq, FifoProofs.aget_aset_eq, Ew, (alist_get_some [] _ _ _ Ed).
        rewrite deliver_potw. unfold dcostw, dcost. rewrite !sumf_cons. cbv beta. lia. }
    unfold stealcost. rewrite sumf_nil, Nat.add_0_r. exact X.
  - (* LRecvW *)
    replace (mem_nat n0 (y_dead s)) with false in H by (rewrite A; reflexivity).
    destruct (aget n0 (y_w s)) as [w0|] eqn:Ew; try discriminate.
    cbn [useful] in Hu. rewrite Ew in Hu.
    destruct (negb (wcb w0)); [discriminate|].
    destruct (recv_step (c_oracle c n0) w0) as [w' evs] eqn:Es. fin3 H s' o w.
    pose proof (worker_ltw c s n0 w0 Ek Ew) as HnN.
    destruct (G _ _ Ew) as (Iw0 & Gw & _).
    pose proof (recv_step_potw c (c_oracle c n0) n0 w0 Gw (nodup_queue P s n0 w0 CI Ew) Hu) as X.
    rewrite Es in X. cbn [fst snd] in X.
    assert (Y : muw c (push_up (set_w s n0 w') n0 (map (up_of_wevent c n0) evs)) + 1 <= muw c s).
    { apply (muw_node_step _ _ n0); auto.
      - intros n Hn. apply nodepotw_push_other. exact Hn.
      - rewrite nodepotw_push. unfold nodepotw. rewrite Ew. lia. }
    unfold stealcost. rewrite sumf_nil, Nat.add_0_r. exact Y.
  - (* LMain *)
    replace (mem_nat n0 (y_dead s)) with false in H by (rewrite A; reflexivity).
    destruct (aget n0 (y_w s)) as [w0|] eqn:Ew; try discriminate.
    assert (Hd : dies_now c n0 w0 = false).
    { unfold dies_now. destruct (wph w0); auto. }
    rewrite Hd in H.
    destruct (main_step (c_oracle c n0) w0) as [[w' evs]|] eqn:Es; [|discriminate]. fin3 H s' o w.
    pose proof (worker_ltw c s n0 w0 Ek Ew) as HnN.
    pose proof (main_step_potw c n0 w0 w' evs (WXall n0 w0 Ew) Es) as X.
    assert (Y : muw c (push_up (set_w s n0 w') n0 (map (up_of_wevent c n0) evs)) + 1 <= muw c s).
    { apply (muw_node_step _ _ n0); auto.
      - intros n Hn. apply nodepotw_push_other. exact Hn.
      - rewrite nodepotw_push. unfold nodepotw. rewrite Ew. lia. }
    unfold stealcost. rewrite sumf_nil, Nat.add_0_r. exact Y.
  - (* LRecv *)
    destruct (aget n0 (y_up s)) as [[|m rest]|] eqn:Eup; try discriminate.
    cbn [y_d] in H.
    destruct (process_from_remote n0 m (y_d s)) as [[d' outs] r] eqn:Ep.
    pose proof (E n0) as En. rewrite (alist_get_some [] _ _ _ Eup) in En.
    inversion En as [|m1 r1 Gm Gr]; subst.
    destruct (Eu n0) as (Eu1 & Eu2). rewrite (alist_get_some [] _ _ _ Eup) in Eu1, Eu2.
    inversion Eu1 as [|m2 r2 Gm3 Gr3]; subst.
    assert (HnN : n0 < N).
    { destruct (Nat.lt_ge_cases n0 N) as [X|X]; [exact X|]. specialize (Eu2 X). discriminate. }
    destruct (aget n0 (ws_nt ws)) as [f|] eqn:Ef.
    2:{ exfalso. apply (proj2 (wj_ntk _ _ _ J n0)); [exact HnN|exact Ef]. }
    destruct (pfr_effw c _ _ _ _ _ _ _ _ Els Ef Gm Gm3 HnN Ep)
      as (-> & evs & ws' & -> & Els' & Hdrop & Hheard & Hother & Hok3 & S1 & S2 & S3 & P1 & P2 & P3 & P4 & P5 & P6 & P8 &
          (f' & Ef' & Fsd & Fcl & Fsp & Fdn & Fdn' & Ffin)).
    pose proof (pfr_costw _ _ _ _ _ _ Gm Ep) as Hlen.
    cbn [apply_outs] in H. unfold close_if_dead in H. cbn [set_evq set_d y_dead] in H.
    replace (mem_nat n0 (y_dead s)) with false in H by (rewrite A; reflexivity).
    fin3 H s' o w.
    match goal with |- muw c ?x + 1 <= _ => set (s2 := x) end.
    assert (E1 : y_d s2 = d') by reflexivity. assert (E2 : y_evq s2 = y_evq s ++ evs) by reflexivity.
    unfold muw. rewrite E1, E2, app_length, sumf_app.
    assert (Ec : ctlpotw c d' = ctlpotw c (y_d s)).
    { unfold ctlpotw. rewrite Els', Els. f_equal.
      - unfold poolpotw. rewrite P4, P3. reflexivity.
      - apply sumf_ext_in. intros k _. unfold sdnw. destruct (Nat.eq_dec k n0) as [->|Hk].
        + rewrite Ef, Ef'. cbn. rewrite Fsd. reflexivity.
        + rewrite (P8 k Hk). reflexivity. }
    rewrite Ec.
    pose proof (sumf_change_one (nodepotw c s) (nodepotw c s2) (seq 0 N) n0 (seq_NoDup N 0)) as X.
    assert (Hin : In n0 (seq 0 N)) by (apply in_seq; lia).
    assert (Hoth : forall n, In n (seq 0 N) -> n <> n0 -> nodepotw c s2 n = nodepotw c s n).
    { intros n _ Hn. unfold nodepotw, s2. cbn [set_evq set_d y_up y_down y_w].
      rewrite FifoProofs.alist_get_aset_neq by exact Hn. reflexivity. }
    specialize (X Hin Hoth).
    assert (Hn0 : nodepotw c s2 n0 + 2 + upx c m = nodepotw c s n0).
    { unfold nodepotw, s2. cbn [set_evq set_d y_up y_down y_w].
      rewrite FifoProofs.alist_get_aset_eq, (alist_get_some [] _ _ _ Eup). cbn [length]. rewrite sumf_cons. lia. }
    unfold stealcost. rewrite sumf_nil. lia.
  - (* LCtl *)
    specialize (Ea eq_refl).
    destruct (d_active (y_d s)) as [|a0 ar] eqn:Eact; [contradiction|].
    destruct (y_evq s) as [|ev q] eqn:Eevq; [discriminate|].
    inversion D as [|ev1 q1 Gev Gq]; subst. inversion Eq as [|ev2 q2 Gev3 Gq3]; subst.
    destruct (d_loop_once ev (y_d s)) as [[d' outs] r] eqn:El.
    assert (Hpre : PREW N (c_coll c) ev (y_d s) ws).
    { eapply pre_from_invw; eauto. }
    assert (Hact : d_active (y_d s) <> []) by (rewrite Eact; discriminate).
    destruct (loop_once_okw N (c_coll c) ev (y_d s) ws d' outs r DJd Iw Hact Hpre El) as (-> & ws' & LE).
    destruct (okw_loop_once ev (y_d s) Gev _ _ _ El ws Els Iw) as (ws2 & Els2 & _ & HWT & Go).
    assert (Els' : d_sched d' = StW ws').
    { destruct (lw_dj _ _ _ _ _ _ _ _ LE) as ([E1 _ _ _ _ _] & _). exact E1. }
    assert (ws2 = ws') by congruence. subst ws2.
    pose proof (loop_xw N (c_coll c) ev (y_d s) ws d' outs (Ok tt) DJd Iw Hact Hpre El ws' Els') as LX.
    set (s1 := apply_outs (set_d (set_evq s q) d') outs) in *.
    assert (Hd1 : y_dead (set_d (set_evq s q) d') = []) by (cbn; exact A).
    destruct (apply_outs_effw outs _ Hd1 Go) as (A1 & A2 & A3 & A4 & A5 & A6 & A7).
    cbn [set_d set_evq y_d y_evq y_up y_w y_dead y_result y_down] in A1, A2, A3, A4, A5, A6, A7.
    fold s1 in A1, A2, A3, A4, A5, A6, A7.
    assert (S' : exists rr, s' = set_result s1 rr /\ o = outs).
    { destruct (d_session_finished d') eqn:Efin.
      - fin3 H s' o w. eexists. split; reflexivity.
      - destruct (d_active d') as [|b0 br] eqn:Eact'.
        + exfalso. pose proof (lw_fin _ _ _ _ _ _ _ _ LE) as Hf. rewrite Eact' in Hf. specialize (Hf eq_refl).
          unfold d_session_finished in Efin. rewrite Hf, Eact' in Efin. discriminate.
        + fin3 H s' o w. exists (y_result s1). split; [|reflexivity]. symmetry. apply set_result_same. reflexivity. }
    destruct S' as (rr & -> & ->).
    assert (Emu : muw c (set_result s1 rr) = muw c s1) by reflexivity. rewrite Emu. clear Emu.
    pose proof (lw_dj _ _ _ _ _ _ _ _ LE) as ([_ J' _ _ _ _] & _).
    (* the nodes' shares: what was sent is added to the wires down *)
    assert (Enode : forall n, nodepotw c s1 n = nodepotw c s n + dcostw c n (cmds_to n outs)).
    { intros n. unfold nodepotw. rewrite A3, A4, A7. unfold dcostw, dcost. rewrite !sumf_app. lia. }
    (* per node: commands, the shutdown budget, the price of a request *)
    assert (Hnode : forall n, In n (seq 0 N) ->
              dcostw c n (cmds_to n outs) + sdnw ws' n <=
              sdnw ws n + sumf (pcost c) (flat_map cmd_inds (cmds_to n outs)) + sumf stcmd (cmds_to n outs)).
    { intros n Hn. apply in_seq in Hn. assert (HnN : n < N) by lia.
      destruct (aget n (ws_nt ws)) as [f|] eqn:Ef.
      2:{ exfalso. apply (proj2 (wj_ntk _ _ _ J n)); [exact HnN|exact Ef]. }
      pose proof (lw_nt _ _ _ _ _ _ _ _ LE n) as R. rewrite Ef in R.
      destruct (aget n (ws_nt ws')) as [f'|] eqn:Ef'; [|destruct R]. cbn in R.
      rewrite (sdnw_some ws n f Ef), (sdnw_some ws' n f' Ef').
      exact (NRW_costw n f _ f' HnN R (lxw_ne _ _ _ _ _ _ LX n)). }
    assert (CK : forall k, ~ In k (seq 0 N) -> cmds_to k outs = []).
    { intros k Hk. pose proof (lw_nt _ _ _ _ _ _ _ _ LE k) as R.
      destruct (aget k (ws_nt ws)) as [f|] eqn:Ef.
      - exfalso. apply Hk. apply in_seq. assert (X : k < N) by (apply (wj_ntk _ _ _ J k); congruence). lia.
      - destruct (aget k (ws_nt ws')); [destruct R|exact R]. }
    assert (Hsum : sumf (fun n => dcostw c n (cmds_to n outs)) (seq 0 N) + sumf (sdnw ws') (seq 0 N) <=
                   sumf (sdnw ws) (seq 0 N) + sumf (pcost c) (sent_inds outs) + stealcost c outs).
    { rewrite <- (sumf_perm (pcost c) _ _ (sent_permw (seq 0 N) outs (seq_NoDup N 0) CK Go)).
      rewrite sumf_flat_map.
      pose proof (stcmd_sum (seq 0 N) outs (seq_NoDup N 0)) as St.
      assert (X : sumf (fun n => dcostw c n (cmds_to n outs) + sdnw ws' n) (seq 0 N) <=
                  sumf (fun n => sdnw ws n + sumf (pcost c) (flat_map cmd_inds (cmds_to n outs)) + sumf stcmd (cmds_to n outs)) (seq 0 N))
        by (apply sumf_le_in; exact Hnode).
      rewrite !sumf_add in X. lia. }
    (* the pool *)
    assert (Hpool : sumf (pcost c) (sent_inds outs) + poolpotw c ws' <= poolpotw c ws + evx c ev).
    { destruct HWT as (T1 & T2 & T3). unfold poolpotw.
      assert (Eb : evx c ev = sumf (pcost c) (ev_inds ev)) by (destruct ev; reflexivity).
      destruct (ws_coll ws') as [coll|] eqn:Ec'.
      - specialize (T3 coll eq_refl). unfold vpw in T3. rewrite Ec' in T3.
        pose proof (sumf_perm (pcost c) _ _ T3) as T3s. rewrite !sumf_app in T3s.
        destruct (ws_coll ws) as [c0|] eqn:Ec0.
        + lia.
        + destruct (lxw_coll _ _ _ _ _ _ LX coll Ec') as [Fc|(k & others & En2c)]; [congruence|].
          assert (Hk : In (k, coll) (ws_n2c ws')) by (rewrite En2c; left; reflexivity).
          pose proof (proj1 (wj_lg _ _ _ J') k coll Hk) as Eck.
          assert (HkN : k < N).
          { apply (wj_n2c _ _ _ J'). unfold akeys. change k with (fst (k, coll)). apply in_map. exact Hk. }
          assert (Hle : sumf (pcost c) (seq 0 (length coll)) <= prepool c).
          { unfold prepool. rewrite Eck.
            apply (sumf_in_le (fun n => sumf (pcost c) (seq 0 (length (c_coll c n))))). apply in_seq. lia. }
          lia.
      - destruct (T2 eq_refl) as (T2a & T2b). rewrite T2a, sumf_nil.
        destruct (ws_coll ws) as [c0|] eqn:Ec0; [specialize (T1 c0 eq_refl); discriminate|]. lia. }
    unfold muw. rewrite A1, A2, Eevq. cbn [length]. rewrite sumf_cons.
    rewrite (sumf_ext_in (nodepotw c s1) (fun n => nodepotw c s n + dcostw c n (cmds_to n outs)) _ (fun n _ => Enode n)).
    rewrite sumf_add. unfold ctlpotw. rewrite Els', Els. lia.
Qed.

End StepMuW.

(* ====================================================================================== *)
(* the theorems                                                                            *)
(* ====================================================================================== *)

(* the price of the steal requests issued along a schedule *)
Fixpoint run_price (c : config) (s : sys) (ls : list label) : nat :=
  match ls with
  | [] => 0
  | l :: r => match sys_step c s l with
              | Some (s', o, _) => stealcost c o + run_price c s' r
              | None => 0
              end
  end.
(* ... and their number *)
Fixpoint run_requests (c : config) (s : sys) (ls : list label) : nat :=
  match ls with
  | [] => 0
  | l :: r => match sys_step c s l with
              | Some (s', o, _) => length (steal_reqs o) + run_requests c s' r
              | None => 0
              end
  end.

Lemma stealcost_no_request c o : steal_reqs o = [] -> stealcost c o = 0.
Proof.
  unfold stealcost, steal_reqs. induction o as [|x o IH]; [reflexivity|]. cbn [flat_map]. intros H.
  apply app_eq_nil in H. destruct H as (H1 & H2). rewrite sumf_cons, (IH H2).
  destruct x as [h|m cm| |]; try reflexivity. destruct cm; try reflexivity. discriminate.
Qed.

Lemma run_price_no_request c ls : forall s, run_requests c s ls = 0 -> run_price c s ls = 0.
Proof.
  induction ls as [|l r IH]; intros s H; [reflexivity|]. cbn [run_price run_requests] in *.
  destruct (sys_step c s l) as [[[s' o] w]|]; [|reflexivity].
  assert (H1 : steal_reqs o = []) by (destruct (steal_reqs o); [reflexivity|cbn in H; lia]).
  rewrite (stealcost_no_request c o H1), IH; [reflexivity|lia].
Qed.

Section MainTW.
  Variable c : config.
  Hypothesis Hmode : c_mode c = MSteal.
  Hypothesis Hnocrash : forall n i, c_crash_in c n i = false.
  Hypothesis Hnogarbled : no_garbled c.
  Hypothesis Hids : forall n, ~ In ""%string (c_coll c n).
  Hypothesis Hnodes : 0 < c_numnodes c.

  (* a move that issues no steal request makes the measure strictly smaller *)
  Corollary step_muw_no_request P s l s' o w :
    no_crash_label l -> useful s l = true -> CInvG c P s -> sys_step c s l = Some (s', o, w) ->
    steal_reqs o = [] -> muw c s' + 1 <= muw c s.
  Proof.
    intros Hl Hu CI H Hr. pose proof (step_muw c Hnocrash P s l s' o w Hl Hu CI H) as X.
    rewrite (stealcost_no_request c o Hr) in X. lia.
  Qed.

  Lemma useful_run_bound_from ls : forall s, (exists P, CInvG c P s) -> useful_run c s ls ->
    length ls + muw c (run_from c s ls) <= muw c s + run_price c s ls.
  Proof.
    induction ls as [|l r IH]; intros s CI H; [cbn; lia|]. cbn [useful_run] in H. destruct H as (A & B & H).
    cbn [run_price run_from fold_left]. destruct (sys_step c s l) as [[[s' o] w]|] eqn:E; [|destruct H].
    destruct CI as (P & CI).
    pose proof (step_muw c Hnocrash P s l s' o w A B CI E) as X.
    pose proof (step_cinvw c Hnocrash Hnogarbled Hids P s l s' o w A CI E) as CI'.
    specialize (IH s' CI' H). fold (run_from c s' r). cbn [length]. lia.
  Qed.

  (* C02, termination up to the steal requests: a schedule of useful moves is at most
     muw (initial state) + (the prices of the steal requests issued along it) long *)
  Theorem useful_run_bound_ws : forall ls, useful_run c (sys_init c) ls ->
    length ls <= muw c (sys_init c) + run_price c (sys_init c) ls.
  Proof.
    intros ls H.
    assert (CI : exists P, CInvG c P (sys_init c)) by (exists (fun _ => false); apply CInvW_init; assumption).
    pose proof (useful_run_bound_from ls _ CI H). lia.
  Qed.

  (* in particular: a schedule of useful moves along which no steal request is issued *)
  Corollary useful_run_bound_no_request : forall ls, useful_run c (sys_init c) ls ->
    run_requests c (sys_init c) ls = 0 -> length ls <= muw c (sys_init c).
  Proof.
    intros ls H H0. pose proof (useful_run_bound_ws ls H) as X.
    rewrite (run_price_no_request c ls _ H0) in X. lia.
  Qed.

  (* a schedule of useful moves that cannot be extended by a useful move has ended the session *)
  Theorem c02_ws_maximal_run_ends : forall ls,
    useful_run c (sys_init c) ls -> (forall l, ~ useful_run c (sys_init c) (ls ++ [l])) ->
    y_result (sys_run c ls) <> None.
  Proof.
    intros ls H Hmax Hres.
    pose proof (useful_run_nocrash c ls _ H) as Hnc.
    destruct (c02_ws_no_deadlock_useful c ls Hmode Hnocrash Hnogarbled Hids Hnc Hnodes Hres) as (l & A & B & C).
    apply (Hmax l). apply useful_run_snoc; auto.
  Qed.
End MainTW.

Print Assumptions step_muw.
Print Assumptions useful_run_bound_ws.
Print Assumptions c02_ws_maximal_run_ends.
Check step_muw.
Check step_muw_no_request.
Check useful_run_bound_ws.
Check useful_run_bound_no_request.
Check c02_ws_maximal_run_ends.

(* ====================================================================================== *)
(* Non-vacuity                                                                             *)
(* ====================================================================================== *)
(* (a) the schedule that always takes the first useful move (Termination.greedy), on the 3-worker,
   12-test configuration of ExactlyOnceSteal.v: 233 moves, every one useful, two steal requests
   (total price 170), the session ends as "finished"; 233 <= 1491 + 170 *)
Example termw_ex_greedy :
  let c := c01w_cfg in
  let ls := greedy c (sys_init c) 2000 in
  muw c (sys_init c) = 1491 /\ length ls = 233 /\ run_price c (sys_init c) ls = 170 /\
  run_requests c (sys_init c) ls = 2 /\
  useful_run c (sys_init c) ls /\ y_result (sys_run c ls) = Some RFinished.
Proof.
  cbv zeta. split; [vm_compute; reflexivity|]. split; [vm_compute; reflexivity|]. split; [vm_compute; reflexivity|].
  split; [vm_compute; reflexivity|]. split; [apply useful_runb_ok; vm_compute; reflexivity|vm_compute; reflexivity].
Qed.

(* (b) schedules that always take the useful move of highest priority; with the wires down served last
   every request reaches its victim too late and is refused (the reply is empty): *)
Fixpoint bestby (score : label -> nat) (ms : list label) (cur : label) : label :=
  match ms with [] => cur | l :: r => if score l <? score cur then bestby score r l else bestby score r cur end.
Fixpoint pri_run (score : label -> nat) (c : config) (s : sys) (fuel : nat) : list label :=
  match fuel with
  | 0 => []
  | S f => match prog_moves c s with
           | [] => []
           | l0 :: ms => let l := bestby score ms l0 in
                         match sys_step c s l with Some (s', _, _) => l :: pri_run score c s' f | None => [] end
           end
  end.
(* the number of refused requests (empty replies) the controller handles along a schedule *)
Fixpoint run_refused (c : config) (s : sys) (ls : list label) : nat :=
  match ls with
  | [] => 0
  | l :: r => match sys_step c s l with
              | Some (s', _, _) =>
                  (match l, y_evq s with LCtl, QUnscheduled _ [] :: _ => 1 | _, _ => 0 end) + run_refused c s' r
              | None => 0
              end
  end.
Definition termw_score (l : label) : nat :=
  match l with LMain _ => 0 | LRecv _ => 1 | LCtl => 2 | LRecvW _ => 3 | _ => 9 end.
Definition termw_cfg4 : config := ws_cfg 4 15 0%Z (fun _ _ => false) (fun _ => []).
Example termw_ex_refused :
  let c := termw_cfg4 in
  let ls := pri_run termw_score c (sys_init c) 3000 in
  muw c (sys_init c) = 2468 /\ length ls = 244 /\ run_requests c (sys_init c) ls = 3 /\
  run_refused c (sys_init c) ls = 3 /\ run_price c (sys_init c) ls = 255 /\
  useful_run c (sys_init c) ls /\ y_result (sys_run c ls) = Some RFinished.
Proof.
  cbv zeta. split; [vm_compute; reflexivity|]. split; [vm_compute; reflexivity|]. split; [vm_compute; reflexivity|].
  split; [vm_compute; reflexivity|]. split; [vm_compute; reflexivity|].
  split; [apply useful_runb_ok; vm_compute; reflexivity|vm_compute; reflexivity].
Qed.

(* (c) the measure along the greedy schedule of (a): it goes down with every move, except at the two
   controller iterations that issue a steal request (where it goes up by less than the price) *)
Fixpoint muw_trace (c : config) (s : sys) (ls : list label) : list (nat * nat) :=
  match ls with
  | [] => [(muw c s, 0)]
  | l :: r => match sys_step c s l with
              | Some (s', o, _) => (muw c s, stealcost c o) :: muw_trace c s' r
              | None => [(muw c s, 0)]
              end
  end.
Definition muw_ok (t : list (nat * nat)) : bool :=
  (fix go (t : list (nat * nat)) : bool :=
     match t with
     | (m, p) :: (((m', _) :: _) as r) => (m' + 1 <=? m + p) && go r
     | _ => true
     end) t.
Example termw_ex_trace :
  let c := c01w_cfg in
  let t := muw_trace c (sys_init c) (greedy c (sys_init c) 2000) in
  muw_ok t = true /\ filter (fun x => negb (Nat.eqb (snd x) 0)) t = [(150, 85); (112, 85)].
Proof. vm_compute. split; reflexivity. Qed.

(* the theorems apply to (a) *)
Example termw_ex_theorem_applies :
  let c := c01w_cfg in
  let ls := greedy c (sys_init c) 2000 in
  length ls <= muw c (sys_init c) + run_price c (sys_init c) ls.
Proof.
  cbv zeta. destruct c01w_cfg_hyps as (H1 & H2 & H3 & H4 & H5 & _).
  apply useful_run_bound_ws; try assumption. apply useful_runb_ok. vm_compute. reflexivity.
Qed.
Print Assumptions termw_ex_theorem_applies.

(* ====================================================================================== *)
(* What is missing                                                                         *)
(* ====================================================================================== *)
(* NOT PROVED: a bound on the number (or the total price) of the steal requests issued along a run of
   useful moves -- i.e. an unconditional bound on the length of every run of useful moves, and a
   measure that EVERY useful move makes smaller.  With it, useful_run_bound_ws gives
       length ls <= muw0 + (bound on the number of requests) * (largest price of a request).

   Why a steal request cannot simply be paid for by the measure above: the request does not change the
   controller's books (the requested tests stay in the victim's book until the reply is handled), and
   - if the steal succeeds the tests go back to the pool and out again: what pays for it is the balance
     of the books (the tests move from the tail of a book of >= 3 to books of <= 1) -- but completions
     handled while the request is in flight can spoil that balance before the reply arrives;
   - if the steal is refused (the victim's main thread took a requested test before the request
     arrived; see termw_ex_refused and ProgressSteal.progw_ex_refused) the controller's state after the
     reply is what it was before the request.  A refused request is only possible when a completion of
     the victim was in flight when the request was computed, or when the victim's main thread took an
     item from its queue in the meantime; and (holding at most two tests that are taken and not
     completed) every refused round trip has a completion of the victim handled between the request
     and its reply.  So the number of refused requests is bounded by the number of completions, but a
     STATE function that goes down at the moment the next request is issued has to remember that
     (e.g. completions of the victim that are in flight when the request is issued lose their credit).
   The candidate is: per node, a credit for every completion in flight that is not ahead of an
   outstanding request for that node; a price per position in a book for tests that are not requested,
   a discounted price for requested tests while the request can still succeed; a credit per test still
   in a queue (it pays for the request it may doom when it is taken).  Proving it needs the ordered
   coupling of CouplingSteal.v (coupling_ordered_node_ws) at the moment a request is issued.

   Evaluated evidence (no proof): along the runs of T1-style random and priority schedules used while
   developing this file (2-4 workers, 8-15 tests, with and without stop requests and --maxfail) the
   number of requests per session was between 0 and 3 and every run of useful moves ended the session;
   termw_ex_greedy, termw_ex_refused above are two of them. *)
