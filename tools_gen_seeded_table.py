#!/usr/bin/env python3
"""regenerates the table of DESIGN.md section 11 from seeded/*/meta.json (development aid)"""
import glob, json, os, re
rows = []
for m in sorted(glob.glob("/verif/seeded/*/meta.json")):
    d = json.load(open(m))
    notes = d.get("needs_to_manifest", "")
    lines = [l.strip() for l in notes.split("\n") if l.strip() and not re.fullmatch(r"[=\-~]+", l.strip())]
    title = lines[0] if lines else ""
    title = re.sub(r"^(C\d\d )?[Mm]utant \d+\s*[-–—:]+\s*", "", title)
    rest = [l for l in lines[1:] if l.lower().rstrip(":") not in ("change", "changes")]
    title = (title + " — " + " ".join(rest[:3]))
    title = title.replace("|", "/")[:260]
    det = "; ".join(f"{k}: {v}" for k, v in d["detected_by"].items()).replace("|", "/")
    rows.append(f"| {d['id']} | {title} | {det} |")
table = "| id | the change (first lines of the agent's notes; full text in seeded/<id>/notes.txt) | caught by |\n|---|---|---|\n" + "\n".join(rows) + "\n"
p = "/verif/DESIGN.md"
s = open(p).read()
a = s.index("| id | ", s.index("## 11. Seeded changes"))
b = s.index("\n\n", a)
s = s[:a] + table.rstrip("\n") + s[b:]
s = re.sub(r"\(\d+ seeded", f"({len(rows)} seeded", s)
open(p, "w").write(s)
print(len(rows), "rows")
