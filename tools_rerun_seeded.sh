#!/bin/sh
# usage: tools_rerun_seeded.sh [parallel]   (development aid)
# re-runs every stored seeded change against the quick check of the property it breaks (scratch copies, VERIF_REPO);
# same-property changes run one after the other (they share evidence/replay files), properties run in parallel.
P=${1:-4}
cd /verif
ls seeded | grep '^C[0-9][0-9]-' | sed 's/-.*//' | sort -u > /tmp/rerun_props.txt
cat /tmp/rerun_props.txt | xargs -P $P -I{} sh -c 'c={}; for d in /verif/seeded/$c-*; do id=$(basename $d); echo "$id $(/verif/tools_try_mutant.sh $d/patch.diff quick $c | cut -c1-200)"; done'
