#!/bin/sh
# usage: tools_confirm_seeded.sh <worktree> <mutant-dir>   (development aid)
# confirms: demo passes on the clean worktree, fails with the patch; leaves the worktree clean
WT="$1"; M="$2"
cd "$WT" || exit 2
git checkout -q -- src
[ -f src/xdist/_version.py ] || cp /repo/src/xdist/_version.py src/xdist/_version.py
demo=$(ls "$M"/demo*.py | head -1)
run() {
  case "$demo" in
    *_test.py) PYTHONPATH="$WT/src" timeout 600 /venv/bin/python -m pytest "$demo" -p pytester -p no:cacheprovider -q -x --basetemp=/tmp/bt_$$ >/tmp/demo_$$.log 2>&1 ;;
    *) PYTHONPATH="$WT/src" timeout 600 /venv/bin/python "$demo" >/tmp/demo_$$.log 2>&1 ;;
  esac
}
run; clean=$?
git apply "$M/patch.diff" || { echo "APPLY FAILED"; exit 2; }
run; mutated=$?
git checkout -q -- src
rm -rf /tmp/bt_$$ /tmp/demo_$$.log
echo "$M clean_exit=$clean mutated_exit=$mutated"
