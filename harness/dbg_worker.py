import sys, json, random
sys.path.insert(0, '/verif/harness')
import common, gen_worker
from drive_worker import run_case
seed = int(sys.argv[1]); idx = int(sys.argv[2])
rnd = random.Random(seed)
cases = [gen_worker.gen_case(rnd, wf=(k % 5 != 4)) for k in range(idx + 1)]
c = cases[idx]; c["trace"] = True
impl = run_case(c)
m = common.Model()
mod = m.call("worker_trace", gen_worker.model_input(c))
for k, (a, b) in enumerate(zip(impl, mod)):
    if a != b:
        print("first divergence at step", k, "op", c["ops"][k])
        print("ops so far", c["ops"][:k + 1])
        print("oracle", c["n"], c["reports"], c["stops"], c["coll"])
        print("impl ", a); print("model", b)
        if k: print("prev ", impl[k - 1])
        break
else:
    print("no divergence", len(impl), len(mod))
