import sys, json, collections
sys.path.insert(0, '/verif/harness')
import common
kind = sys.argv[1]; n = int(sys.argv[2]); base = int(sys.argv[3]) if len(sys.argv) > 3 else 0
modes = ["load", "worksteal", "loadscope", "loadfile", "loadgroup", "each"]
jobs = [{"kind": kind, "seed": base + i, "mode": modes[i % 6]} for i in range(n)]
res = common.run_jobs("drive_sched.py", jobs, nproc=14)
m = common.Model()
inputs = []
for r in res:
    if isinstance(r, list):
        print("DRIVER", r); continue
    inputs.append([r["mode"], r["numnodes"], [] if r["chunk"] is None else [r["chunk"]], r["ops"]])
outs = m.batch("sched", inputs)
bad = collections.Counter(); shown = set()
errs = collections.Counter()
nops = 0
for j, (r, mo) in enumerate(zip([x for x in res if not isinstance(x, list)], outs)):
    nops += len(r["ops"])
    for k, (a, b) in enumerate(zip(r["obs"], mo)):
        if a[1][0] == "err": errs[(r["mode"], r["ops"][k][0], a[1][1])] += 1
        if a != b:
            key = (r["mode"], r["ops"][k][0])
            bad[key] += 1
            if key not in shown and len(shown) < 6:
                shown.add(key)
                print("MISMATCH seed", jobs[j]["seed"], r["mode"], "step", k, "op", r["ops"][k], "nn", r["numnodes"], "chunk", r["chunk"])
                print("  ops:", r["ops"][:k + 1][-12:])
                print("  impl :", a); print("  model:", b)
            break
print("cases", len(inputs), "ops", nops, "mismatch", dict(bad))
print("errors seen", dict(errs))
