"""Controller-level driver: the REAL DSession + scheduler + WorkerController (as composed by sim.Sim), fed with
worker messages written by an abstract, protocol-following worker that can also misbehave in the ways a real worker can:
exit on a keyboard interrupt (exit status 2), exit with a stop request, send an internal_error event, send something the
controller cannot decode, die (end marker) at any point. The worker threads of the simulator are never run: every
message is INJECTED on the worker's up-wire. The same operation list is run on Model/CtlRun.v.

job: {kind: "online", seed, cfg?}  ->  {cfg, wire, ops, obs, labels, summary, ctl_events, stuck}
ops (also the model's input): ["inject", n, event] | ["recv", n] | ["ctl"] | ["crash", n]
event (canonical, as the simulator prints worker events): ["workerready"] ["collectionfinish"] ["collectreport", key, failed]
  ["logstart", i] ["testreport", i, k, outcome] ["logfinish", i] ["runtest_protocol_complete", i] ["unscheduled", [ixs]]
  ["workerfinished", 0|1|2] ["internal_error"] ["warning_recorded"] ["garbled"] ["END"]"""
from __future__ import annotations

import itertools
import json
import random
import sys
import types
import warnings

import drive_sim
from sim import Sim
from wsim import OUTCOMES


_PROC = itertools.count(1000)   # the text of a collection error differs from worker to worker (pids, addresses, worker ids in reprs)

def real_event(sim, n, ev):
    """the tuple a real worker would put on the channel for this canonical event"""
    w = sim.workers[n]
    ids = w.ids
    k = ev[0]
    if k == "END":
        return "END"
    if k == "workerready":
        from xdist.remote import getinfodict
        return ("workerready", {"workerinfo": getinfodict()})
    if k == "collectionstart":
        return ("collectionstart", {})
    if k == "collectionfinish":
        return ("collectionfinish", {"topdir": "/", "ids": list(ids)})
    if k == "collectreport":
        key, failed = ev[1], ev[2]
        rep = types.SimpleNamespace(passed=False, failed=bool(failed), skipped=not failed, key=key, longrepr="collect-error-%d in process %d" % (key, next(_PROC)),
                                    nodeid="coll%d" % key, outcome="failed" if failed else "skipped")
        return ("collectreport", {"data": {"rep": rep}})
    if k in ("logstart", "logfinish"):
        nid = ids[ev[1]] if ev[1] < len(ids) else "?::%d" % ev[1]
        return (k, {"nodeid": nid, "location": (nid, 0, "x")})
    if k == "testreport":
        i, kk, oc = ev[1], ev[2], OUTCOMES[ev[3]]
        nid = ids[i] if i < len(ids) else "?::%d" % i
        rep = types.SimpleNamespace(nodeid=nid, when="call", outcome=oc, failed=oc == "failed", passed=oc == "passed",
                                    skipped=oc == "skipped", k=kk, longrepr=None)
        return ("testreport", {"data": {"rep": rep, "item_index": i, "worker_id": "gw%d" % n, "testrun_uid": "uid"}})
    if k == "runtest_protocol_complete":
        return (k, {"item_index": ev[1], "duration": w.dur_ms.get(ev[1], 0) / 1000.0})
    if k == "unscheduled":
        return (k, {"indices": list(ev[1])})
    if k == "workerfinished":
        sk = ev[1]
        return (k, {"workeroutput": {"exitstatus": 2 if sk == 2 else 0, "shouldfail": False,
                                     "shouldstop": "stop requested" if sk == 1 else False}})
    if k == "internal_error":
        return (k, {"formatted_error": "Traceback ... boom"})
    if k == "warning_recorded":
        from xdist.remote import serialize_warning_message
        wm = warnings.WarningMessage(message=UserWarning("careful"), category=UserWarning, filename="f.py", lineno=3)
        return (k, {"warning_message_data": serialize_warning_message(wm), "when": "runtest", "nodeid": "n", "location": None})
    if k == "garbled":
        return ("<garbled>", {})
    raise ValueError(ev)


class AbstractWorker:
    """follows remote.py's protocol from the commands it finds on its down-wire; decides its faults with its own PRNG"""

    def __init__(self, rnd, sim, n, fault_p, kbd_p=None):
        self.rnd, self.sim, self.n = rnd, sim, n
        self.kbd_p = fault_p if kbd_p is None else kbd_p
        self.seen = 0              # commands read from the down-wire
        self.queue = []
        self.outbox = []
        self.state = "boot"        # boot -> ready -> collected -> gone
        self.shutdown = False
        self.fault_p = fault_p

    def ids(self):
        return self.sim.workers[self.n].ids

    def read_commands(self):
        down = self.sim.down[self.n]
        cmds = list(down)[self.seen:]
        self.seen = len(down)
        for c in cmds:
            if self.shutdown:
                continue           # everything behind the marker is ignored
            name, kw = c
            if name == "runtests":
                self.queue += [int(x) for x in kw["indices"]]
            elif name == "runtests_all":
                self.queue += list(range(len(self.ids())))
            elif name == "steal":
                req = [int(x) for x in kw["indices"]]
                tail = self.queue[1:] if self.outbox else self.queue
                if req and all(x in tail for x in req):
                    for x in req:
                        self.queue.remove(x)
                    self.outbox.append(["unscheduled", req])
                else:
                    self.outbox.append(["unscheduled", []])
            elif name == "shutdown":
                self.shutdown = True

    def think(self):
        """refill the outbox when it is empty"""
        if self.outbox or self.state == "gone":
            return
        r, p = self.rnd, self.fault_p
        if self.state == "boot":
            self.outbox.append(["workerready"]); self.state = "ready"; return
        if self.state == "ready":
            for key, failed in (self.sim.cfg.get("collreports") or {}).get(self.n, []):
                self.outbox.append(["collectreport", key, int(bool(failed))])
            self.outbox += [["collectionstart"], ["collectionfinish"]]; self.state = "collected"; return
        self.read_commands()
        if self.outbox:
            return
        x = r.random()
        if x < p:                                           # a fault that needs no test
            kind = r.choice(["internal_error", "garbled", "warning_recorded", "END"])
            self.outbox.append([kind])
            if kind in ("internal_error", "END"):
                if kind == "internal_error":
                    self.outbox.append(["END"])
                self.state = "gone"
            return
        if self.queue and (len(self.queue) >= 2 or self.shutdown):
            i = self.queue.pop(0)
            reps = self.sim.cfg["reports"][i] if i < len(self.sim.cfg["reports"]) else [0]
            self.outbox.append(["logstart", i])
            if r.random() < self.kbd_p:                     # the test raises KeyboardInterrupt: no report, exit status 2
                self.outbox += [["workerfinished", 2], ["END"]]; self.state = "gone"; return
            for kk, oc in enumerate(reps):
                self.outbox.append(["testreport", i, kk, oc])
            self.outbox += [["logfinish", i], ["runtest_protocol_complete", i]]
            if i in self.sim.cfg["stops"]:
                self.outbox += [["workerfinished", 1], ["END"]]; self.state = "gone"
            return
        if self.shutdown and not self.queue:
            self.outbox += [["workerfinished", 0], ["END"]]; self.state = "gone"


def run_online(job):
    rnd = random.Random(job["seed"])
    cfg = job.get("cfg") or drive_sim.make_cfg(rnd, {"profile": "crash", "mode": job.get("mode")})
    cfg["crashers"] = []                                     # deaths are the abstract workers' business here
    cfg["overrides"] = {int(k): v for k, v in (cfg.get("overrides") or {}).items()}
    cfg["collreports"] = {int(k): v for k, v in (cfg.get("collreports") or {}).items()}
    sim = Sim(cfg)
    fault_p = job.get("fault_p", rnd.choice([0.0, 0.02, 0.05, 0.1]))
    aw = {}
    ops, obs = [], []
    dead, exited = [], []
    try:
        for _ in range(job.get("maxsteps", 1200)):
            if sim.result is not None:
                break
            for n in sim.workers:
                if n not in aw:
                    aw[n] = AbstractWorker(random.Random(rnd.randrange(1 << 30)), sim, n, fault_p, job.get("kbd_p"))
            choices = []
            for n, a in aw.items():
                if sim.workers[n].dead:
                    continue
                a.think()
                if a.outbox:
                    choices.append(["inject", n])
                if sim.workers[n].upwire:
                    choices.append(["recv", n])
            for n, w in sim.workers.items():                 # messages of workers killed by a crash label
                if w.dead and w.upwire and ["recv", n] not in choices:
                    choices.append(["recv", n])
            if not sim.ds.queue.empty() or not sim.ds._active_nodes:
                choices += [["ctl"], ["ctl"]]
            if not choices:
                break
            if fault_p and rnd.random() < fault_p / 4:
                live = [n for n, w in sim.workers.items() if not w.dead and aw[n].state != "gone"]
                if live:
                    choices = [["crash", rnd.choice(live)]]
            op = rnd.choice(choices)
            if op[0] == "inject":
                n = op[1]
                ev = aw[n].outbox.pop(0)
                sim.stepno += 1
                sim.workers[n].upwire.append(real_event(sim, n, ev))
                if ev[0] == "workerfinished":
                    exited.append(n)
                ops.append(["inject", n, ev])
                obs.append([[], [[n, ev]], sim.view()])
            else:
                if op[0] == "crash":
                    dead.append(op[1])
                    aw[op[1]].state = "gone"
                ops.append(op)
                obs.append(sim.step(op))
        summary = {"result": sim.result, "ran": {}, "completed": {}, "crash_info": {}, "dead": sorted(set(dead)), "exited": sorted(set(exited)),
                   "sent": sim.sent, "queues": {}, "nworkers": len(sim.workers),
                   "exc": repr(getattr(sim, "exc", None))[:300] if getattr(sim, "exc", None) is not None else None,
                   "exc_site": drive_sim.exc_site(getattr(sim, "exc", None))}
        out = {"cfg": cfg, "wire": drive_sim.cfg_wire(cfg), "ops": ops, "labels": [o if o[0] != "inject" else ["inject", o[1]] for o in ops],
               "obs": obs, "stuck": False, "summary": summary, "ctl_events": sim.ctl_events}
    finally:
        sim.dispose()
    return out


def run_replay(job):
    sim = Sim(job["cfg"])
    obs = []
    try:
        for op in job["ops"]:
            if op[0] == "inject":
                sim.stepno += 1
                if sim.result is not None or op[1] not in sim.workers:
                    obs.append(["disabled"]); continue
                sim.workers[op[1]].upwire.append(real_event(sim, op[1], op[2]))
                obs.append([[], [[op[1], op[2]]], sim.view()])
            else:
                obs.append(sim.step(op))
        return {"cfg": job["cfg"], "ops": job["ops"], "obs": obs, "result": sim.result,
                "exc": repr(getattr(sim, "exc", None))[:300], "exc_site": drive_sim.exc_site(getattr(sim, "exc", None))}
    finally:
        sim.dispose()


def main():
    for line in sys.stdin:
        job = json.loads(line)
        try:
            r = run_online(job) if job["kind"] == "online" else run_replay(job)
        except BaseException as e:  # noqa: BLE001
            import traceback
            r = ["driver-exc", type(e).__name__, traceback.format_exc()[-1500:]]
        sys.stdout.write(json.dumps(r, default=lambda o: sorted(o) if isinstance(o, set) else str(o)) + "\n")
        sys.stdout.flush()


if __name__ == "__main__":
    main()
