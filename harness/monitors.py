"""Property monitors over one simulated session of the REAL implementation (a run record
produced by drive_sim.py). Each monitor returns a list of (signature, detail); signatures are
coarse, stable records used to match known findings. The monitors are the violation search:
they never look at the model."""
from __future__ import annotations

import collections

LB_MODES = ("load", "worksteal", "loadscope", "loadfile", "loadgroup")
SCOPE_MODES = ("loadscope", "loadfile", "loadgroup")


class Run:
    """decoded view of a run record"""

    def __init__(self, r):
        self.r = r
        self.cfg = r["cfg"]
        self.mode = self.cfg["mode"]
        self.labels = r["labels"]
        self.obs = r["obs"]
        self.summary = r["summary"]
        self.result = self.summary["result"]
        self.stuck = r.get("stuck", False)
        self.ctl_events = {int(k): v for k, v in (r.get("ctl_events") or {}).items()}
        self.nworkers = self.summary["nworkers"]
        self.coll = {n: self.coll_of(n) for n in range(self.nworkers)}
        self.ran = {int(n): v for n, v in self.summary["ran"].items()}
        self.completed = {int(n): v for n, v in self.summary.get("completed", {}).items()}
        # ordered controller outputs with the step they happened in
        self.outs = []
        self.wevs = []
        for k, (l, o) in enumerate(zip(self.labels, self.obs)):
            if o == ["disabled"]:
                continue
            for x in o[0]:
                self.outs.append((k, x))
            for x in o[1]:
                self.wevs.append((k, x[0], x[1]))
        self.crash_steps = {}
        for k, (l, o) in enumerate(zip(self.labels, self.obs)):
            if o == ["disabled"]:
                continue
            if l[0] == "crash":
                self.crash_steps[l[1]] = k
            elif l[0] == "main" and o[0] == [] and o[1] == [] and l[1] in self.summary["dead"] and l[1] not in self.crash_steps:
                # died inside the test it entered (possibly); confirmed by crash_info
                pass
        self.crash_info = {int(n): v for n, v in (self.summary.get("crash_info") or {}).items()}
        # workers written off for an undecodable message (a report with outcome 3): what they do afterwards is
        # not heard by the controller. 'heard' views stop at the message that got the worker written off.
        self.writeoff = {}
        for k, n, ev in self.wevs:
            if ev[0] == "testreport" and ev[3] == 3 and n not in self.writeoff:
                self.writeoff[n] = k
        self.ran_heard, self.completed_heard, self.offbook = {}, {}, {}
        for n, ran in self.ran.items():
            if n in self.writeoff:
                k0 = self.writeoff[n]
                ns = sum(1 for k, m, ev in self.wevs if m == n and ev[0] == "logstart" and k <= k0)
                nc = sum(1 for k, m, ev in self.wevs if m == n and ev[0] == "runtest_protocol_complete" and k <= k0)
                self.ran_heard[n], self.offbook[n] = ran[:ns], ran[ns:]
                self.completed_heard[n] = self.completed.get(n, [])[:nc]
            else:
                self.ran_heard[n], self.completed_heard[n] = ran, self.completed.get(n, [])

    def coll_of(self, n):
        ov = self.cfg.get("overrides") or {}
        return ov.get(n, ov.get(str(n), self.cfg["coll"]))

    def finished_ok(self):
        return self.result == ["finished"]

    def stopped_by_budget(self):
        return any(o[0] == "summary" for _k, o in self.outs)

    def collections_disagree(self):
        """some worker collected something else than the default collection (C09 scenarios)"""
        return any(self.coll[n] != self.cfg["coll"] for n in self.coll) or any(o[0] == "colldiff" for _k, o in self.outs)


def sig(run, **kw):
    d = {"mode": run.mode}
    d.update(kw)
    return d


# ------------------------------------------------------------------ C17 / generic
def mon_internal_error(run):
    out = []
    res = run.result
    if res and res[0] == "error":
        site = (run.summary.get("exc_site") or ["?"])
        if res[1] == "RuntimeError" and site[-1].endswith("loop_once"):
            return out            # the documented 'Unexpectedly no active workers available'
        out.append((sig(run, kind="controller-exception", exc=res[1], site=site[-1]),
                    {"exc": run.summary.get("exc"), "site": site}))
    return out


def mon_no_active(run):
    """the documented RuntimeError exit; only legitimate when every worker is really gone"""
    res = run.result
    if res and res[0] == "error" and res[1] == "RuntimeError":
        return [(sig(run, kind="no-active-workers"), {"exc": run.summary.get("exc")})]
    return []


# ------------------------------------------------------------------ C02
def mon_stuck(run):
    if run.stuck and run.result is None:
        return [(sig(run, kind="stuck", disagree=run.collections_disagree()),
                 {"queues": run.summary["queues"], "dead": run.summary["dead"],
                                           "exited": run.summary["exited"]})]
    return []


# ------------------------------------------------------------------ C01 / C03 / C15 accounting
def accounting(run):
    """per test id: protocol entries, completions, crash reports, requeues"""
    entries = collections.Counter()
    completes = collections.Counter()
    for n, ran in run.ran_heard.items():
        for i, _nx in ran:
            entries[run.coll[n][i]] += 1
    for n, comp in run.completed_heard.items():
        for i in comp:
            completes[run.coll[n][i]] += 1
    crashreps = collections.Counter()
    for _k, o in run.outs:
        if o[0] == "h_crashreport":
            crashreps[o[1]] += 1
    return entries, completes, crashreps


def mon_exactly_once(run):
    """load-balancing modes, run finished normally: every collected test completes exactly once,
    counting a 'crashed while running' report (not re-queued) as its one outcome"""
    out = []
    if run.mode not in LB_MODES or not run.finished_ok() or run.stopped_by_budget() or run.collections_disagree():
        return out
    entries, completes, crashreps = accounting(run)
    requeues = min(run.cfg["requeue"], sum(crashreps.values()))
    ids = run.cfg["coll"]
    total_requeued = 0
    for t in set(ids):
        mult = ids.count(t)
        c, cr, e = completes[t], crashreps[t], entries[t]
        if run.mode in SCOPE_MODES and mult > 1:
            mult = 1          # duplicate ids collapse into one unit entry (documented limitation)
        # requeued crash reports lead to another run
        extra = c + cr - mult
        if extra < 0:
            out.append((sig(run, kind="test-lost"), {"test": t, "completes": c, "crashreports": cr, "entries": e}))
        elif extra > 0:
            total_requeued += extra
            if cr < extra:
                out.append((sig(run, kind="test-run-twice"), {"test": t, "completes": c, "crashreports": cr, "entries": e}))
        if e > c + cr:
            out.append((sig(run, kind="test-entered-more-than-accounted"), {"test": t, "completes": c, "crashreports": cr, "entries": e}))
    if total_requeued > requeues:
        out.append((sig(run, kind="more-reruns-than-requeues"), {"reruns": total_requeued, "requeues": requeues}))
    # a written-off worker goes on with its queue (the shutdown marker is queued BEHIND its tests) while the
    # controller hands the same tests to others: executed twice, reported once
    for n, extra_runs in run.offbook.items():
        if extra_runs:
            out.append((sig(run, kind="tests-executed-again-on-a-written-off-worker"),
                        {"worker": n, "tests": [run.coll[n][i] for i, _ in extra_runs]}))
    return out


def mon_crash_reports(run):
    """C03: each death of a worker that holds tests yields exactly one crash report, naming the test
    it was executing or about to start"""
    out = []
    if run.mode == "each" or run.collections_disagree():
        return out
    reps = collections.defaultdict(list)
    for _k, o in run.outs:
        if o[0] == "h_crashreport":
            reps[o[2]].append(o[1])
    errordown_handled = {o[1] for _k, o in run.outs if o[0] == "nodedown" and o[2] == 1}
    # written off for an undecodable report: exactly one crash report, naming the test whose report was lost
    for n, k0 in run.writeoff.items():
        if n not in errordown_handled or run.coll[n] != run.cfg["coll"]:
            continue
        garbled = [ev[1] for k, m, ev in run.wevs if m == n and k == k0 and ev[0] == "testreport" and ev[3] == 3][:1]
        got = reps.get(n, [])
        if len(got) != 1:
            out.append((sig(run, kind="crash-report-count", count=len(got), written_off=True), {"worker": n, "reports": got}))
        elif garbled and got[0] != run.coll[n][garbled[0]]:
            out.append((sig(run, kind="crash-report-wrong-test", written_off=True),
                        {"worker": n, "reported": got[0], "expected": run.coll[n][garbled[0]]}))
    for n, info in run.crash_info.items():
        if n not in errordown_handled or n in run.writeoff:
            continue
        cands = []
        if info.get("running") is not None:
            cands = [info["running"]]
        elif info.get("pending_first") is not None:
            cands = [info["pending_first"]]
        else:       # tests sent to the worker after it had died
            for k, o in run.outs:
                if k > info["step"] and o[0] == "send" and o[1] == n and o[2][0] == "run" and o[2][1]:
                    cands = [o[2][1][0]]
                    break
        got = reps.get(n, [])
        if cands:
            if len(got) != 1:
                out.append((sig(run, kind="crash-report-count", count=len(got)), {"worker": n, "reports": got, "info": info}))
            elif run.coll[n] == run.cfg["coll"] and got[0] not in [run.coll[n][i] for i in cands]:
                out.append((sig(run, kind="crash-report-wrong-test"), {"worker": n, "reported": got[0],
                                                                         "candidates": [run.coll[n][i] for i in cands]}))
        elif len(got) > 1:
            # (one report is legitimate: tests assigned after the death, never delivered)
            out.append((sig(run, kind="crash-report-count", count=len(got)), {"worker": n, "reports": got}))
    return out


# ------------------------------------------------------------------ C04
def mon_report_fifo(run):
    out = []
    sent = collections.defaultdict(list)
    for _k, n, ev in run.wevs:
        if ev[0] == "testreport":
            sent[n].append(ev[1:])
    got = collections.defaultdict(list)
    for _k, o in run.outs:
        if o[0] == "h_report":
            got[o[1]].append(o[2:])
    for n in set(sent) | set(got):
        s, g = sent[n], got[n]
        if n in run.writeoff:
            # an undecodable report cannot be delivered and gets its worker written off: only what it produced BEFORE is heard
            cut = next((j for j, r in enumerate(s) if r[2] == 3), len(s))
            s = s[:cut]
        if g != s[:len(g)]:
            out.append((sig(run, kind="reports-not-fifo-prefix"), {"worker": n, "sent": s[:12], "forwarded": g[:12]}))
        elif run.finished_ok() and n in run.summary["exited"] and n not in run.writeoff and len(g) != len(s):
            out.append((sig(run, kind="reports-missing-at-end"), {"worker": n, "sent": len(s), "forwarded": len(g)}))
    # the number of collected tests made known to the controller's session = the size of a collection some worker reported
    tc = run.summary.get("testscollected")
    handled = [o[1] for _k, o in run.outs if o[0] == "collfinished"]
    if tc is not None and handled and tc not in {len(run.coll[n]) for n in handled if n in run.coll}:
        out.append((sig(run, kind="testscollected-wrong"), {"testscollected": tc, "collections": {n: len(run.coll[n]) for n in handled if n in run.coll}}))
    keys = collections.Counter()
    sent_keys = set()
    for _k, n, ev in run.wevs:
        if ev[0] == "collectreport":
            sent_keys.add(ev[1])
    for _k, o in run.outs:
        if o[0] == "h_collectreport":
            keys[o[1]] += 1
    for key, c in keys.items():
        if c > 1:
            out.append((sig(run, kind="collect-error-reported-more-than-once"), {"key": key, "count": c}))
    return out


# ------------------------------------------------------------------ C05 (system level)
def mon_nextitem(run):
    out = []
    for n, ran in run.ran.items():
        for k, (i, nx) in enumerate(ran[:-1]):
            if nx is None or nx != ran[k + 1][0]:
                out.append((sig(run, kind="nextitem-wrong"), {"worker": n, "ran": ran}))
                break
    return out


# ------------------------------------------------------------------ C06
def scope_key(mode, nodeid):
    if mode == "loadscope":
        return nodeid.rsplit("::", 1)[0]
    if mode == "loadfile":
        return nodeid.split("::", 1)[0]
    if mode == "loadgroup":
        return nodeid.split("@")[-1] if nodeid.rfind("@") > nodeid.rfind("]") else nodeid
    return nodeid


def mon_groups(run):
    out = []
    if run.mode not in SCOPE_MODES:
        return out
    owner = {}
    for n, ran in run.ran_heard.items():      # what a written-off worker does afterwards is off the books (KF: it finishes its queue)
        ids = [run.coll[n][i] for i, _ in ran]
        keys = [scope_key(run.mode, t) for t in ids]
        # contiguity + collection order inside the worker
        seen = []
        for kk in keys:
            if seen and seen[-1] == kk:
                continue
            if kk in seen:
                out.append((sig(run, kind="group-not-contiguous"), {"worker": n, "ids": ids}))
                break
            seen.append(kk)
        pos = {t: p for p, t in enumerate(run.coll[n])}
        for a, b in zip(ids, ids[1:]):
            if scope_key(run.mode, a) == scope_key(run.mode, b) and pos[a] > pos[b]:
                out.append((sig(run, kind="group-out-of-order"), {"worker": n, "ids": ids}))
                break
        for kk in set(keys):
            owner.setdefault(kk, set()).add(n)
    dead = set(run.summary["dead"]) | set(run.writeoff)     # written off = lost, as far as the controller is concerned
    for kk, ws in owner.items():
        live = ws - dead
        if len(live) > 1 or (len(ws) > 1 and not (ws & dead)):
            out.append((sig(run, kind="group-on-several-workers"), {"group": kk, "workers": sorted(ws)}))
        elif len(ws) - len(ws & dead) > 1:
            out.append((sig(run, kind="group-remainder-split"), {"group": kk, "workers": sorted(ws)}))
    return out


# ------------------------------------------------------------------ C08
def mon_each_environment(run):
    """each mode, whatever the collections: (1) a worker that dies INSIDE a test yields exactly one crash report;
    (2) a run that ends as 'finished' has had the unfinished tests of every dead initial worker run by
    later workers with the same collection ('the run does not finish before it has done so')"""
    out = []
    if run.mode != "each":
        return out
    reps = collections.defaultdict(list)
    for _k, o in run.outs:
        if o[0] == "h_crashreport":
            reps[o[2]].append(o[1])
    handled = {o[1] for _k, o in run.outs if o[0] == "nodedown" and o[2] == 1}
    if not (run.result and run.result[0] == "error"):
        for n, info in run.crash_info.items():
            if n in handled and info.get("running") is not None and len(reps.get(n, [])) != 1:
                out.append((sig(run, kind="each-crash-report-count", count=len(reps.get(n, []))),
                            {"worker": n, "reports": reps.get(n, []), "info": info}))
    if run.finished_ok() and not run.stopped_by_budget():
        nn = run.cfg["numnodes"]
        crashed_ids = {o[1] for _k, o in run.outs if o[0] == "h_crashreport"}
        given = {o[1] for _k, o in run.outs if o[0] == "send" and o[2][0] in ("run", "runall")}
        for d in sorted(set(run.summary["dead"])):
            if d >= nn or d not in handled or d not in given:
                continue
            done = set(run.completed.get(d, []))
            rest = [i for i in range(len(run.coll[d])) if i not in done and run.coll[d][i] not in crashed_ids]
            later = set()
            for n in range(nn, run.nworkers):
                if run.coll[n] == run.coll[d]:
                    later |= {i for i, _ in run.ran.get(n, [])}
            missing = [i for i in rest if i not in later]
            if missing:
                out.append((sig(run, kind="each-run-finished-before-the-remainder-was-run"),
                            {"dead": d, "unfinished": rest, "never_run": missing}))
    return out


def mon_each(run):
    out = mon_each_environment(run)
    if run.mode != "each" or not run.finished_ok() or run.stopped_by_budget() or run.collections_disagree():
        return out
    dead = set(run.summary["dead"]) | set(run.writeoff)       # written off = lost, as far as the controller is concerned
    nn = run.cfg["numnodes"]
    for n in range(nn):
        if n in dead:
            continue
        got = [i for i, _ in run.ran.get(n, [])]
        if got != list(range(len(run.coll[n]))):
            out.append((sig(run, kind="each-worker-did-not-run-everything"), {"worker": n, "ran": got}))
    if len(dead) == 1 and run.nworkers == nn + 1 and not run.writeoff:
        d = next(iter(dead))
        ci = run.crash_info.get(d, {})
        if d < nn and run.coll[nn] == run.coll[d] and (ci.get("running") is not None or ci.get("pending_first") is not None):
            done = set(run.completed.get(d, []))
            crashed = [o[1] for _k, o in run.outs if o[0] == "h_crashreport" and o[2] == d]
            expect = [i for i in range(len(run.coll[d])) if i not in done and run.coll[d][i] not in crashed]
            got = [i for i, _ in run.ran.get(nn, [])]
            if got != expect:
                out.append((sig(run, kind="each-replacement-wrong-remainder"),
                            {"dead": d, "expected": expect, "ran": got, "crashed": crashed}))
    return out


# ------------------------------------------------------------------ C09
def mon_agreed_collection(run):
    """tests are dispatched by index: every worker that is sent tests must have reported a
    collection first, and all workers that are sent tests must have collected the same list"""
    out = []
    reported = set()
    got_tests = []
    for k, o in run.outs:
        if o[0] == "collfinished":
            reported.add(o[1])
        elif o[0] == "send" and o[2][0] in ("run", "runall"):
            n = o[1]
            if n not in got_tests:
                got_tests.append(n)
            if n not in reported:
                out.append((sig(run, kind="tests-sent-before-collection-reported"), {"worker": n, "cmd": o[2], "step": k}))
    if run.mode != "each" and got_tests:
        ref = run.coll[got_tests[0]]
        for n in got_tests[1:]:
            if run.coll[n] != ref:
                out.append((sig(run, kind="tests-sent-to-disagreeing-worker"),
                            {"worker": n, "reference_worker": got_tests[0]}))
    # initial disagreement: one failed collect report per disagreeing worker, nothing dispatched
    diffs = [o for _k, o in run.outs if o[0] == "colldiff"]
    if diffs and run.mode != "each" and got_tests:
        first_diff = min(k for k, o in run.outs if o[0] == "colldiff")
        late = [o for k, o in run.outs if k >= first_diff and o[0] == "send" and o[2][0] in ("run", "runall")]
        if late:
            out.append((sig(run, kind="dispatch-despite-initial-disagreement"), {"cmds": late[:3]}))
    # initial disagreement: EACH worker whose list differs from the first one's is reported
    if diffs and run.mode != "each" and not got_tests:
        k0 = min(k for k, o in run.outs if o[0] == "colldiff")
        order, gone = [], set()
        for k, o in run.outs:
            if k > k0:
                break
            if o[0] == "collfinished" and o[1] not in order:
                order.append(o[1])
            elif o[0] == "nodedown" and k < k0:
                gone.add(o[1])
        live = [n for n in order if n not in gone]
        if live:
            ref = live[0]
            expect = sorted(n for n in live[1:] if run.coll[n] != run.coll[ref])
            got = sorted(o[2] for k, o in run.outs if o[0] == "colldiff" and k == k0)
            if got != expect:
                out.append((sig(run, kind="disagreeing-workers-not-each-reported"),
                            {"reference": ref, "disagreeing": expect, "reported": got}))
    return out


# ------------------------------------------------------------------ C10
def mon_restart_budget(run):
    out = []
    budget = run.cfg["max_restart"]
    spawns = [k for k, o in run.outs if o[0] == "spawn"]
    summaries = [k for k, o in run.outs if o[0] == "summary"]
    # the documented summary line, as it stands at the END of the run (seeded C10-8: later deaths overwrote it with a larger number)
    text = run.summary.get("summary_report")
    if text is not None and budget is not None:
        import re as _re
        ok = (_re.fullmatch(r"worker gw\d+ crashed and worker restarting disabled", text) is not None) if budget <= 0 \
            else text == "maximum crashed workers reached: %d" % budget
        if not ok:
            out.append((sig(run, kind="summary-line-wrong"), {"summary": text, "budget": budget}))
    if budget is not None:
        if len(spawns) > max(0, budget):
            out.append((sig(run, kind="restarts-exceed-budget"), {"spawns": len(spawns), "budget": budget}))
        errordowns = sum(1 for _k, o in run.outs if o[0] == "nodedown" and o[2] == 1)
        if errordowns > max(0, budget) and not summaries:
            out.append((sig(run, kind="budget-exceeded-without-summary"), {"errordowns": errordowns, "budget": budget}))
        if summaries and any(s > summaries[0] for s in spawns):
            out.append((sig(run, kind="spawn-after-budget-exhausted"), {}))
        if summaries:
            first = summaries[0]
            late = [o for k, o in run.outs if k > first and o[0] == "send" and o[2][0] in ("run", "runall", "steal")]
            if late:
                out.append((sig(run, kind="dispatch-after-budget-exhausted"), {"cmds": late[:3]}))
            # "... and ends with a failing status": the status of a run is failing iff some failed report was published
            # (test, crash or collection report) or the run is interrupted
            failed = any((o[0] == "h_report" and o[4] == 1) or o[0] == "h_crashreport" or (o[0] == "h_collectreport" and o[2] == 1)
                         or o[0] == "colldiff" for _k, o in run.outs)
            if run.result == ["finished"] and not failed:
                out.append((sig(run, kind="budget-exhausted-but-the-run-ends-as-success"), {"summary_step": first}))
    return out


# ------------------------------------------------------------------ C11
def mon_stop(run):
    out = []
    stop_step = None
    for k, o in enumerate(run.obs):
        if o != ["disabled"] and o[2][2]:
            stop_step = k
            break
    if stop_step is not None:
        late = [(k, o) for k, o in run.outs if k > stop_step and o[0] == "send" and o[2][0] in ("run", "runall", "steal")]
        if late:
            out.append((sig(run, kind="dispatch-after-stop"), {"stop_step": stop_step, "cmds": late[:3]}))
        if run.result == ["finished"]:
            out.append((sig(run, kind="stop-condition-but-finished-normally"), {}))
    else:
        if run.result == ["interrupted"]:
            out.append((sig(run, kind="interrupted-without-stop-condition"), {}))
    # a worker that ended with a stop / fail-fast request, once the controller has handled its exit
    stoppers = {n for _k, n, ev in run.wevs if ev[0] == "workerfinished" and ev[1] in (1, 2)}     # stop request / keyboard interrupt
    handled = {ev[1] for ev in run.ctl_events.values() if ev and ev[0] == "workerfinished"}
    if (stoppers & handled) and run.result == ["finished"]:
        out.append((sig(run, kind="worker-stop-request-ignored"), {"workers": sorted(stoppers & handled)}))
    # the very iteration that decides to stop must not hand out tests either (they would be queued AHEAD of the shutdown signal)
    if stop_step is not None:
        same = [o for k, o in run.outs if k == stop_step and o[0] == "send" and o[2][0] in ("run", "runall", "steal")]
        if same:
            out.append((sig(run, kind="dispatch-in-the-iteration-that-decided-to-stop"), {"stop_step": stop_step, "cmds": same[:3],
                                                                                            "event": run.ctl_events.get(stop_step)}))
    # a worker whose own session asked to stop (a test set session.shouldstop) ends REGULARLY: its request is a stop
    # reason, it is not a dead worker (no error-down, no crash report for a test it never ran, no replacement)
    asked = {n for n, ran in run.ran.items() if any(i in run.cfg["stops"] for i, _ in ran)}
    for n in sorted(asked & set(run.summary["exited"]) - set(run.summary["dead"]) - set(run.writeoff)):
        if any(o[0] == "nodedown" and o[1] == n and o[2] == 1 for _k, o in run.outs):
            out.append((sig(run, kind="worker-stop-request-treated-as-worker-failure"),
                        {"worker": n, "crashreports": [o[1] for _k, o in run.outs if o[0] == "h_crashreport" and o[2] == n]}))
    # the stop decision itself: maxfail failed reports, or a worker finishing with a stop request
    maxfail = run.cfg["maxfail"]
    failed = 0
    should = None
    for k, o in run.outs:
        if (o[0] == "h_report" and o[4] == 1) or (o[0] == "h_collectreport" and o[2] == 1):
            failed += 1
            if maxfail and failed >= maxfail and should is None:
                should = k
    if should is not None and (stop_step is None or stop_step > should) and run.result is not None \
            and run.result[0] != "error":
        out.append((sig(run, kind="maxfail-reached-without-stop"), {"at": should, "stop_step": stop_step}))
    # ... and only by them: every failure counts ONCE (a collection error that every worker hits is one failure)
    if stop_step is not None:
        nfailed = sum(1 for k, o in run.outs if k <= stop_step and ((o[0] == "h_report" and o[4] == 1) or (o[0] == "h_collectreport" and o[2] == 1)
                                                                    or o[0] == "h_crashreport" or o[0] == "colldiff"))
        by_maxfail = bool(maxfail) and nfailed >= maxfail
        by_worker = any(k <= stop_step and ev and ev[0] == "workerfinished" and ev[1] in stoppers for k, ev in run.ctl_events.items())
        by_budget = any(k <= stop_step and o[0] == "summary" for k, o in run.outs)
        if not (by_maxfail or by_worker or by_budget):
            out.append((sig(run, kind="stopped-without-a-stop-condition"),
                        {"stop_step": stop_step, "failures_forwarded": nfailed, "maxfail": maxfail}))
    return out


# ------------------------------------------------------------------ C16
def mon_command_stream(run):
    out = []
    ref_len = len(run.cfg["coll"])
    per = collections.defaultdict(list)
    reported = set()
    for k, o in run.outs:
        if o[0] == "collfinished":
            reported.add(o[1])
        if o[0] == "send":
            per[o[1]].append((k, o[2]))
            if o[2][0] in ("run", "runall") and o[1] not in reported:
                # positions are only meaningful in a collection the worker has agreed to
                out.append((sig(run, kind="run-command-before-the-worker-agreed-on-a-collection"), {"worker": o[1], "cmd": o[2], "step": k}))
            if o[2][0] == "run" and o[1] < run.nworkers and any(i >= len(run.coll[o[1]]) for i in o[2][1]):
                out.append((sig(run, kind="index-not-a-position-of-the-workers-collection"), {"worker": o[1], "cmd": o[2], "step": k}))
    for n, cmds in per.items():
        names = [c[0] for _k, c in cmds]
        if names.count("shutdown") > 1:
            out.append((sig(run, kind="more-than-one-shutdown"), {"worker": n, "cmds": names}))
        if "shutdown" in names and names.index("shutdown") != len(names) - 1:
            out.append((sig(run, kind="command-after-shutdown"), {"worker": n, "cmds": names}))
        for _k, c in cmds:
            if c[0] in ("run", "steal") and any(i < 0 or i >= ref_len for i in c[1]):
                out.append((sig(run, kind="index-out-of-range"), {"worker": n, "cmd": c}))
    if run.mode in LB_MODES:
        owner = {}
        steal_req = {}
        for k, (l, o) in enumerate(zip(run.labels, run.obs)):
            if o == ["disabled"] or l[0] != "ctl":
                continue
            ev = run.ctl_events.get(k)
            if ev:
                name, n = ev[0], ev[1]
                if name == "runtest_protocol_complete":
                    if owner.get(ev[2]) == n:
                        del owner[ev[2]]
                elif name == "unscheduled":
                    for i in ev[2]:
                        if owner.get(i) == n:
                            del owner[i]
                elif name in ("errordown", "workerfinished"):
                    for i in [i for i, m in owner.items() if m == n]:
                        del owner[i]
            for x in o[0]:
                if x[0] == "send" and x[2][0] == "run":
                    for i in x[2][1]:
                        if i in owner and owner[i] != x[1] and owner[i] not in run.summary["dead"][:0]:
                            out.append((sig(run, kind="index-outstanding-on-two-workers"),
                                        {"index": i, "first": owner[i], "second": x[1], "step": k}))
                        owner[i] = x[1]
                elif x[0] == "send" and x[2][0] == "steal":
                    for i in x[2][1]:
                        if owner.get(i) != x[1]:
                            out.append((sig(run, kind="steal-of-test-not-booked"), {"index": i, "worker": x[1], "step": k}))
    return out


# ------------------------------------------------------------------ C07 (controller side)
def mon_steal_protocol(run):
    out = []
    if run.mode != "worksteal":
        return out
    outstanding = None
    for k, (l, o) in enumerate(zip(run.labels, run.obs)):
        if o == ["disabled"] or l[0] != "ctl":
            continue
        ev = run.ctl_events.get(k)
        if ev and ev[0] == "unscheduled":
            if outstanding != ev[1]:
                out.append((sig(run, kind="unsolicited-steal-reply"), {"worker": ev[1], "step": k}))
            outstanding = None
        if ev and ev[0] == "errordown" and outstanding == ev[1]:
            outstanding = None
        for x in o[0]:
            if x[0] == "send" and x[2][0] == "steal":
                if outstanding is not None:
                    out.append((sig(run, kind="second-steal-request-outstanding"), {"first": outstanding, "second": x[1], "step": k}))
                outstanding = x[1]
    return out


# ------------------------------------------------------------------ C15
def mon_requeue(run):
    """the hook sees the report before it is published; a re-queued test is dispatched ahead of
    every other unassigned test"""
    out = []
    ref = run.cfg["coll"]
    budget = run.cfg["requeue"] if run.mode in ("load", "worksteal") else 0
    seen_items = 0
    expect = None
    offered = None          # crash item handed to pytest_handlecrashitem, report not yet published
    for k, o in run.outs:
        if o[0] == "h_crashitem":
            offered = o[1]
            # (with a strict channel a send to a dead node is dropped without trace, so the check is
            #  only meaningful when every send is observable)
            if seen_items < budget and o[1] in ref and not run.collections_disagree() and not run.cfg["strict"]:
                expect = ref.index(o[1])
            seen_items += 1
        elif o[0] == "h_crashreport":
            if offered != o[1]:
                out.append((sig(run, kind="crash-report-published-before-the-hook-saw-it"), {"step": k, "test": o[1]}))
            offered = None
        elif o[0] == "send" and o[2][0] == "run" and o[2][1] and expect is not None:
            if o[2][1][0] != expect:
                out.append((sig(run, kind="requeued-test-not-dispatched-first"),
                            {"step": k, "expected_index": expect, "sent": o[2][1]}))
            expect = None
    return out


ALL = {
    "internal_error": mon_internal_error, "stuck": mon_stuck, "exactly_once": mon_exactly_once,
    "crash_reports": mon_crash_reports, "report_fifo": mon_report_fifo, "nextitem": mon_nextitem,
    "groups": mon_groups, "each": mon_each, "agreed_collection": mon_agreed_collection,
    "restart_budget": mon_restart_budget, "stop": mon_stop, "command_stream": mon_command_stream,
    "steal_protocol": mon_steal_protocol, "no_active": mon_no_active, "requeue": mon_requeue,
}


def run_monitors(record, names):
    run = Run(record)
    found = []
    for nm in names:
        for s, d in ALL[nm](run):
            s = dict(s)
            s["monitor"] = nm
            found.append((s, d))
    return found
