"""Implementation-side driver for small pure functions."""
from __future__ import annotations

import json
import sys


def colldiff(a, b):
    from xdist.report import report_collection_diff
    r = report_collection_diff(list(a), list(b), "gw0", "gw1")
    if r is None:
        return 1
    ok = "gw0" in r and "gw1" in r and "Different tests were collected" in r
    return 0 if ok else ["bad-message", r[:200]]


def colldiff_msg(a, b, f, t):
    """the message itself, as lines, for the model's checker (Model/CollDiff.v)"""
    from xdist.report import report_collection_diff
    r = report_collection_diff(list(a), list(b), f, t)
    return [] if r is None else [r.split("\n")]


def main():
    for line in sys.stdin:
        job = json.loads(line)
        try:
            k = job["kind"]
            if k == "colldiff":
                r = colldiff(*job["case"])
            elif k == "colldiff_msg":
                r = colldiff_msg(*job["case"])
            elif k == "default_budget":
                import types
                from xdist.dsession import get_default_max_worker_restart
                o, np = job["case"]
                cfg = types.SimpleNamespace(option=types.SimpleNamespace(maxworkerrestart=None if o is None else str(o), numprocesses=np))
                v = get_default_max_worker_restart(cfg)
                r = [] if v is None else [int(v)]
            else:
                import drive_pure_ext
                r = drive_pure_ext.dispatch(job)
        except BaseException as e:  # noqa: BLE001
            r = ["exc", type(e).__name__, str(e)[:200]]
        sys.stdout.write(json.dumps(r) + "\n")
        sys.stdout.flush()


if __name__ == "__main__":
    main()
