"""Shared plumbing for the checks: paths, the sexp wire format, building the Coq
development and the extracted runner, evidence files, known findings."""
from __future__ import annotations

import contextlib
import fcntl
import hashlib
import json
import os
import re
import subprocess
import sys
import time

VERIF = os.path.dirname(os.path.dirname(os.path.abspath(__file__)))
REPO = os.environ.get("VERIF_REPO", "/repo")
COQ = os.path.join(VERIF, "coq")
BUILD = os.path.join(VERIF, "_build")
RUNNER_DIR = os.path.join(BUILD, "runner")
# VERIF_EVIDENCE_DIR: development runs against scratch copies (seeded changes) must not overwrite the evidence of the real tree
EVIDENCE = os.environ.get("VERIF_EVIDENCE_DIR") or os.path.join(VERIF, "evidence")
REPLAYS = os.path.join(EVIDENCE, "replays")
PY = "/venv/bin/python"

TRUSTED_BASE = [
    "Coq 8.16.1 kernel (coqc, full .vo builds); vm_compute used in Examples/refutation witnesses and the in-Coq cross-check; no native_compute",
    "Axioms: none declared; every property theorem must print 'Closed under the global context' under Print Assumptions (parsed on every run)",
    "Extraction: ExtrOcamlBasic + ExtrOcamlString (which exports ExtrOcamlChar) only, no directive of our own; directives relied upon: Extract Inductive bool, option, unit, list, prod, sumbool, sumor, Extract Inlined Constant andb, orb (ExtrOcamlBasic); Extract Inductive string => char list (ExtrOcamlString); Extract Inductive ascii => char, byte => char, Extract Constant zero, one, shift, Ascii.compare, Extract Inlined Constant ascii_dec, Ascii.eqb, Byte.eqb, Byte.byte_eq_dec, Ascii.ascii_of_byte, Ascii.byte_of_ascii (ExtrOcamlChar); nat/positive/Z stay extracted inductives; runner/main.ml does parsing/printing only; a sample of every correspondence batch is re-evaluated inside Coq with vm_compute, so a wrong directive shows as a runner/kernel disagreement",
    "Violation search (never a proof): property monitors over the simulated sessions, the worker-level race search (main thread preemptible at every lock release and before unprotected Event operations), real pytest runs",
    "Correspondence harness (Python): drives the real xdist classes from /repo's working tree; fakes for execnet channels/gateways, cooperative thread scheduler, stubbed test execution; generator reach bounds what it can show",
    "Modelled, not verified: execnet per-channel FIFO and end-marker ordering, Channel.send failure semantics, RLock/Event semantics, dict insertion order, pytest report (de)serialisation and exit status, os.walk/stat/pathlib, fnmatch.translate, importlib reachability (oracle)",
]


def env_for_repo() -> dict:
    e = dict(os.environ)
    e["PYTHONPATH"] = os.path.join(REPO, "src") + os.pathsep + os.path.join(VERIF, "harness")
    e["PYTHONHASHSEED"] = "0"
    e["PYTHONDONTWRITEBYTECODE"] = "1"
    e["PYTEST_XDIST_VERIF"] = "1"
    e.pop("PYTEST_ADDOPTS", None)
    e.pop("PYTEST_XDIST_AUTO_NUM_WORKERS", None)
    return e


# ---------------------------------------------------------------- sexp wire format
class S(str):
    """marker type: a wire string (plain str is also accepted)"""


def to_line(x) -> str:
    if isinstance(x, bool):
        return "1" if x else "0"
    if isinstance(x, int):
        return str(x)
    if isinstance(x, str):
        out = ['"']
        for b in x.encode("utf-8", "surrogateescape"):
            if b < 32 or b > 126 or b in (34, 92):
                out.append("\\%02x" % b)
            else:
                out.append(chr(b))
        out.append('"')
        return "".join(out)
    if isinstance(x, (list, tuple)):
        return "(" + " ".join(to_line(y) for y in x) + ")"
    if x is None:
        return "()"
    raise TypeError(f"cannot encode {x!r}")


def parse_line(s: str):
    i = 0
    n = len(s)

    def value():
        nonlocal i
        while i < n and s[i] == " ":
            i += 1
        c = s[i]
        if c == "(":
            i += 1
            items = []
            while True:
                while i < n and s[i] == " ":
                    i += 1
                if s[i] == ")":
                    i += 1
                    return items
                items.append(value())
        if c == '"':
            i += 1
            bs = bytearray()
            while s[i] != '"':
                if s[i] == "\\":
                    bs.append(int(s[i + 1 : i + 3], 16))
                    i += 3
                else:
                    bs.append(ord(s[i]))
                    i += 1
            i += 1
            return bs.decode("utf-8", "surrogateescape")
        j = i
        while i < n and s[i] not in " )":
            i += 1
        return int(s[j:i])

    return value()


def to_coq(x) -> str:
    """Gallina term of type sx"""
    if isinstance(x, bool):
        return "SZ 1" if x else "SZ 0"
    if isinstance(x, int):
        return f"SZ ({x})"
    if isinstance(x, str):
        return "SS " + coq_string(x)
    if isinstance(x, (list, tuple)):
        return "SL [" + "; ".join(to_coq(y) for y in x) + "]"
    if x is None:
        return "SL []"
    raise TypeError(f"cannot encode {x!r}")


def coq_string(x: str) -> str:
    bs = x.encode("utf-8", "surrogateescape")
    if all(32 <= b <= 126 for b in bs):
        return '"' + x.replace('"', '""') + '"'
    # build from explicit character codes
    parts = []
    for b in bs:
        parts.append(f'String (ascii_of_nat {b}) ')
    return ("(" + "(".join(parts) + "EmptyString" + ")" * len(parts)) if parts else '""'


# ---------------------------------------------------------------- build
@contextlib.contextmanager
def build_lock():
    os.makedirs(BUILD, exist_ok=True)
    with open(os.path.join(BUILD, ".lock"), "w") as f:
        fcntl.flock(f, fcntl.LOCK_EX)
        try:
            yield
        finally:
            fcntl.flock(f, fcntl.LOCK_UN)


def sh(cmd, timeout=1200, cwd=None, env=None, check=False):
    p = subprocess.run(cmd, shell=isinstance(cmd, str), cwd=cwd, env=env, timeout=timeout,
                       stdout=subprocess.PIPE, stderr=subprocess.STDOUT, text=True, errors="replace")
    if check and p.returncode != 0:
        raise RuntimeError(f"command failed ({p.returncode}): {cmd}\n{p.stdout[-4000:]}")
    return p.returncode, p.stdout


FORBIDDEN = re.compile(
    r"\b(Admitted|admit|Axiom|Axioms|Parameter|Parameters|Conjecture|Conjectures|Admit Obligations"
    r"|bypass_check|Unset\s+Guard|Unset\s+Positivity|Unset\s+Universe|type-in-type|impredicative-set)\b")


def forbidden_scan() -> list[str]:
    """grep gate over the whole development (comments are stripped first)"""
    bad = []
    for root, _d, files in os.walk(COQ):
        for fn in files:
            if not fn.endswith(".v") and fn != "_CoqProject":
                continue
            txt = open(os.path.join(root, fn), encoding="utf-8", errors="replace").read()
            txt = strip_coq_comments(txt)
            for m in FORBIDDEN.finditer(txt):
                bad.append(f"{os.path.relpath(os.path.join(root, fn), VERIF)}: {m.group(0)}")
            for m in re.finditer(r"^\s*(Variable|Variables|Hypothesis|Hypotheses|Context)\b", txt, re.M):
                # allowed only inside a Section: check by counting Section/End before it
                pre = txt[: m.start()]
                depth = len(re.findall(r"^\s*Section\b", pre, re.M)) - len(
                    re.findall(r"^\s*End\s+\w+\s*\.", pre, re.M)) + len(re.findall(r"^\s*Module\b", pre, re.M))
                if depth <= 0:
                    bad.append(f"{fn}: {m.group(1)} outside Section")
    return bad


def strip_coq_comments(t: str) -> str:
    out = []
    depth = 0
    i = 0
    in_str = False
    while i < len(t):
        if depth == 0 and t[i] == '"':
            in_str = not in_str
            out.append(t[i]); i += 1; continue
        if not in_str and t.startswith("(*", i):
            depth += 1; i += 2; continue
        if not in_str and depth > 0 and t.startswith("*)", i):
            depth -= 1; i += 2; continue
        if depth == 0:
            out.append(t[i])
        i += 1
    return "".join(out)


def build_all(jobs=16) -> tuple[bool, str]:
    """full incremental .vo build of the development"""
    with build_lock():
        if not os.path.exists(os.path.join(COQ, "Makefile")) or (
            os.path.getmtime(os.path.join(COQ, "Makefile")) < os.path.getmtime(os.path.join(COQ, "_CoqProject"))):
            sh("coq_makefile -f _CoqProject -o Makefile", cwd=COQ, check=True)
        rc, out = sh(f"timeout 3000 make -j{jobs}", cwd=COQ, timeout=3100)
        return rc == 0, out


def check_property_file(pid: str) -> dict:
    """(re)compile Properties/<pid>.v, parse Print Assumptions output"""
    path = os.path.join(COQ, "Properties", f"{pid}.v")
    src = strip_coq_comments(open(path).read())
    theorems = re.findall(r"^\s*Theorem\s+(\w+)", src, re.M)
    cmd = f"timeout 600 coqc -Q . XV Properties/{pid}.v"
    with build_lock():
        rc, out = sh(cmd, cwd=COQ, timeout=700)
    closed = out.count("Closed under the global context")
    axioms = re.findall(r"^Axioms:\s*\n((?:.+\n)+?)(?:\n|$)", out, re.M)
    stmts = {}
    for m in re.finditer(r"^\s*Theorem\s+(\w+)\s*((?:.|\n)*?)\.\s*\n\s*Proof\.", src, re.M):
        stmts[m.group(1)] = " ".join(m.group(2).split())
    return {
        "ok": rc == 0 and closed == len(theorems) and not axioms,
        "rc": rc,
        "theorems": theorems,
        "statements": stmts,
        "closed": closed if rc == 0 else 0,
        "axioms": axioms,
        "output": out[-3000:],
        "cmd": f"make -C coq -j16 (full .vo build) && cd coq && {cmd}",
    }


def build_runner() -> str:
    """extract the model and compile the OCaml runner; returns its path"""
    with build_lock():
        os.makedirs(RUNNER_DIR, exist_ok=True)
        exe = os.path.join(RUNNER_DIR, "runner")
        stamp = os.path.join(RUNNER_DIR, ".stamp")
        h = hashlib.sha256()
        for root, _d, files in sorted(os.walk(os.path.join(COQ, "Model"))):
            for fn in sorted(files):
                if fn.endswith(".v"):
                    h.update(open(os.path.join(root, fn), "rb").read())
        for p in (os.path.join(COQ, "Extract", "Extract.v"), os.path.join(VERIF, "runner", "main.ml")):
            h.update(open(p, "rb").read())
        key = h.hexdigest()
        if os.path.exists(exe) and os.path.exists(stamp) and open(stamp).read() == key:
            return exe
        sh(f"cp {COQ}/Extract/Extract.v {VERIF}/runner/main.ml .", cwd=RUNNER_DIR, check=True)
        sh(f"timeout 600 coqc -Q {COQ} XV Extract.v", cwd=RUNNER_DIR, check=True, timeout=700)
        sh("ocamlfind ocamlopt -w -a model.mli model.ml main.ml -o runner", cwd=RUNNER_DIR, check=True)
        open(stamp, "w").write(key)
        return exe


class Model:
    """client of the extracted model runner"""

    def __init__(self):
        self.exe = build_runner()
        self.p = subprocess.Popen([self.exe], stdin=subprocess.PIPE, stdout=subprocess.PIPE, text=True, bufsize=1)

    def call(self, component: str, value):
        self.p.stdin.write(component + " " + to_line(value) + "\n")
        self.p.stdin.flush()
        line = self.p.stdout.readline()
        if not line:
            raise RuntimeError("model runner died on " + component + " " + to_line(value)[:300])
        return parse_line(line.rstrip("\n"))

    def batch(self, component: str, values: list) -> list:
        """evaluate many inputs with one round trip (avoids pipe ping-pong)"""
        data = "".join(component + " " + to_line(v) + "\n" for v in values)
        p = subprocess.run([self.exe], input=data, stdout=subprocess.PIPE, text=True)
        lines = p.stdout.split("\n")
        if len(lines) < len(values):
            raise RuntimeError("model runner produced too few lines")
        return [parse_line(l) for l in lines[: len(values)]]

    def close(self):
        try:
            self.p.stdin.close()
            self.p.wait(timeout=5)
        except Exception:
            self.p.kill()


def incoq_crosscheck(cases: list[tuple[str, object, object]], tag: str, per_file=300, jobs=8) -> dict:
    """re-evaluate (component, input, expected) triples inside Coq with vm_compute;
    returns {'cases': n, 'mismatch': [indices], 'files': k}"""
    d = os.path.join(BUILD, "incoq", tag)
    os.makedirs(d, exist_ok=True)
    for f in os.listdir(d):
        os.unlink(os.path.join(d, f))
    files = []
    for k in range(0, len(cases), per_file):
        chunk = cases[k : k + per_file]
        name = f"cases_{k // per_file}"
        body = ";\n ".join(f"({coq_string(c)}, {to_coq(i)}, {to_coq(e)})" for c, i, e in chunk)
        open(os.path.join(d, name + ".v"), "w").write(
            "From XV Require Import Base Dispatch.\nOpen Scope string_scope.\n"
            f"Definition cases : list (string * sx * sx) := [\n {body}].\n"
            "Eval vm_compute in (mismatches 0 cases).\n")
        files.append(name)
    mismatch = []
    procs = []
    with build_lock():
        pass  # make sure no build is running
    for idx, name in enumerate(files):
        procs.append((idx, subprocess.Popen(
            f"ulimit -s unlimited 2>/dev/null; timeout 900 coqc -Q {COQ} XV {name}.v", shell=True, cwd=d,
            stdout=subprocess.PIPE, stderr=subprocess.STDOUT, text=True)))
        if len(procs) >= jobs:
            _drain(procs, per_file, mismatch)
    _drain(procs, per_file, mismatch, all_=True)
    return {"cases": len(cases), "mismatch": sorted(mismatch), "files": len(files)}


def _drain(procs, per_file, mismatch, all_=False):
    while procs and (all_ or len(procs) >= 1):
        idx, p = procs.pop(0)
        out, _ = p.communicate()
        m = re.search(r"=\s*\[(.*?)\]\s*:\s*list nat", out, re.S)
        if p.returncode != 0 or not m:
            mismatch.append(-(idx + 1))  # whole file failed
            sys.stderr.write(out[-2000:])
        else:
            body = m.group(1).strip()
            if body:
                for t in body.split(";"):
                    mismatch.append(idx * per_file + int(t.strip().replace("%nat", "")))
        if not all_:
            break


# ---------------------------------------------------------------- source pins
def source_hash(paths: list[str]) -> str:
    import ast
    h = hashlib.sha256()
    for p in paths:
        fp = os.path.join(REPO, p)
        try:
            tree = ast.parse(open(fp).read())
            h.update(ast.dump(tree, annotate_fields=False, include_attributes=False).encode())
        except Exception as e:  # unparsable source is itself a change
            h.update(repr(e).encode())
    return h.hexdigest()[:16]


def pins_changed(out, paths) -> bool:
    """compares the normalised-AST hash of the modelled sources with the one recorded for the tree the models
    were written against (pins.json); a change never alarms by itself: it is reported in the evidence and the
    quick tier explores three times as many cases"""
    h = source_hash(paths)
    out.coverage["source_pin"] = h
    try:
        rec = json.load(open(os.path.join(VERIF, "pins.json")))
    except Exception:
        rec = {}
    key = ",".join(paths)
    changed = key in rec and rec[key] != h
    out.coverage["source_pins_changed"] = changed
    if changed and out.tier == "quick":
        out.boost = 3
    return changed


def coqchk_axioms(pid: str) -> dict:
    """independent re-check of the compiled property file and everything it depends on (thorough tier)"""
    with build_lock():
        rc, o = sh(f"timeout 3000 coqchk -silent -o -Q . XV XV.Properties.{pid}", cwd=COQ, timeout=3100)
    ax = []
    m = re.search(r"\* Axioms:(.*?)(\n\* |\Z)", o, re.S)
    if m:
        body = m.group(1).strip()
        if "<none>" not in body:
            ax = [l.strip() for l in body.split("\n") if l.strip()]
    return {"rc": rc, "axioms": ax, "tail": o[-1500:]}


# ---------------------------------------------------------------- findings
def load_known_findings() -> list[dict]:
    p = os.path.join(VERIF, "known_findings.json")
    if not os.path.exists(p):
        return []
    return json.load(open(p)).get("findings", [])


class Outcome:
    """collects what a check saw; decides exit status"""

    def __init__(self, pid: str, tier: str, seed: int):
        self.pid, self.tier, self.seed = pid, tier, seed
        self.t0 = time.time()
        self.violations: list[dict] = []      # each: {signature, detail, replay}
        self.broken: list[str] = []           # proofs / correspondences that no longer check
        self.known_seen: dict[str, dict] = {}
        self.coverage: dict = {"samples": []}
        self.assumptions: list[str] = []
        self.known = [k for k in load_known_findings() if k.get("status", "open") == "open"]
        self.boost = 1
        if os.path.isdir(REPLAYS):                      # replay files of earlier runs of this check
            for f in os.listdir(REPLAYS):
                if f.startswith(pid + "-"):
                    with contextlib.suppress(OSError):
                        os.unlink(os.path.join(REPLAYS, f))

    def classify(self, sig: dict) -> dict | None:
        for k in self.known:
            if k["property"] != self.pid and self.pid not in k.get("also", []):
                continue
            ks = k["signature"]
            if all(sig.get(a) == b or (isinstance(b, list) and sig.get(a) in b) for a, b in ks.items()):
                return k
        return None

    def report(self, sig: dict, detail, replay_obj=None):
        """a property violation observed on the implementation (or model)"""
        k = self.classify(sig)
        if k is not None:
            self.known_seen.setdefault(k["id"], k)
            return
        self.violations.append({"signature": sig, "detail": detail, "replay": replay_obj})

    def broke(self, what: str, detail=None):
        self.broken.append(what)
        if detail is not None:
            self.coverage.setdefault("broken_detail", []).append({"what": what, "detail": detail})

    def finish(self, level="proof") -> int:
        os.makedirs(REPLAYS, exist_ok=True)
        lines = []
        for k in self.known_seen.values():
            lines.append(f"KNOWN-FINDING: property={self.pid} {k['id']}: {k['what']}")
        status = 0
        if self.violations:
            v = self.violations[0]
            blob = json.dumps(v, sort_keys=True, default=str)
            path = os.path.join(REPLAYS, f"{self.pid}-{hashlib.sha256(blob.encode()).hexdigest()[:10]}.json")
            json.dump({"property": self.pid, "kind": "failing-input", "violation": v,
                       "all_signatures": [x["signature"] for x in self.violations[:20]],
                       "broken": self.broken, "seed": self.seed, "tier": self.tier},
                      open(path, "w"), indent=1, default=str)
            lines.append(f"VIOLATION property={self.pid} replay={path}")
            status = 1
        elif self.broken:
            path = os.path.join(REPLAYS, f"{self.pid}-broken.json")
            json.dump({"property": self.pid, "kind": "proof-or-correspondence-broken",
                       "no_longer_checks": self.broken, "detail": self.coverage.get("broken_detail"),
                       "seed": self.seed, "tier": self.tier}, open(path, "w"), indent=1, default=str)
            lines.append(f"VIOLATION property={self.pid} replay={path} no-failing-input-found")
            status = 1
        cov = self.coverage
        cov.setdefault("trusted_base", TRUSTED_BASE)
        cov["known_findings_seen"] = sorted(self.known_seen)
        ev = {
            "property_id": self.pid, "tier": self.tier, "seed": self.seed, "level": level,
            "coverage": cov, "assumptions": self.assumptions, "wall_s": round(time.time() - self.t0, 2),
            "violations": len(self.violations) + (1 if (self.broken and not self.violations) else 0),
        }
        os.makedirs(EVIDENCE, exist_ok=True)
        tmp = os.path.join(EVIDENCE, f".{self.pid}.json.tmp")
        json.dump(ev, open(tmp, "w"), indent=1, default=str)
        os.replace(tmp, os.path.join(EVIDENCE, f"{self.pid}.json"))
        for l in lines:
            print(l)
        sys.stdout.flush()
        return status


# ---------------------------------------------------------------- implementation-side job pool
def run_jobs(driver: str, jobs: list, nproc: int = 12, timeout: int = 900, extra_env: dict | None = None) -> list:
    """run `driver` (a script under harness/) over JSON jobs in nproc subprocesses
    of /venv/bin/python with PYTHONPATH=<repo>/src; results in job order.
    A worker that dies or times out yields ["driver-died", ...] for its unanswered jobs."""
    import tempfile, shutil
    if not jobs:
        return []
    nproc = max(1, min(nproc, len(jobs)))
    env = env_for_repo()
    tmp = tempfile.mkdtemp(prefix="verif-drv-", dir=BUILD if os.path.isdir(BUILD) else None)
    env["VERIF_TMP"] = tmp
    if extra_env:
        env.update(extra_env)
    shards = [jobs[i::nproc] for i in range(nproc)]
    procs = []
    for sh_jobs in shards:
        p = subprocess.Popen([PY, os.path.join(VERIF, "harness", driver)], stdin=subprocess.PIPE,
                             stdout=subprocess.PIPE, stderr=subprocess.PIPE, env=env, text=True, cwd=tmp)
        procs.append(p)
    outs = []
    import threading
    def feed(p, sh_jobs, slot):
        try:
            o, e = p.communicate("".join(json.dumps(j) + "\n" for j in sh_jobs), timeout=timeout)
        except subprocess.TimeoutExpired:
            p.kill()
            o, e = p.communicate()
            e = (e or "") + "\nTIMEOUT"
        slot.append((o, e))
    threads, slots = [], []
    for p, sh_jobs in zip(procs, shards):
        slot = []
        t = threading.Thread(target=feed, args=(p, sh_jobs, slot))
        t.start(); threads.append(t); slots.append(slot)
    for t in threads:
        t.join()
    results = [None] * len(jobs)
    for k, (slot, sh_jobs) in enumerate(zip(slots, shards)):
        o, e = slot[0]
        lines = [l for l in o.split("\n") if l.strip()]
        for j in range(len(sh_jobs)):
            idx = k + j * nproc
            if j < len(lines):
                try:
                    results[idx] = json.loads(lines[j])
                except Exception:
                    results[idx] = ["driver-garbled", lines[j][:200]]
            else:
                results[idx] = ["driver-died", (e or "")[-600:]]
    shutil.rmtree(tmp, ignore_errors=True)
    return results


def jsonable_to_sx(x):
    """JSON value (ints, strings, lists, None) -> wire value (same shape)"""
    if x is None:
        return []
    if isinstance(x, (list, tuple)):
        return [jsonable_to_sx(y) for y in x]
    return x


# ---------------------------------------------------------------- correspondence bookkeeping
class Corr:
    """compares model observations with implementation observations"""

    def __init__(self, out: Outcome, model: Model, rnd):
        self.out, self.model, self.rnd = out, model, rnd
        self.incoq: list = []
        out.coverage.setdefault("correspondence", {})
        out.coverage.setdefault("evaluations", 0)
        out.coverage.setdefault("distinct_nontrivial", 0)

    def compare(self, name: str, component: str, inputs: list, impl_obs: list, nontrivial=None,
                incoq_sample: int = 40, histogram=None):
        model_obs = self.model.batch(component, inputs)
        mism = []
        seen = set()
        nontriv = 0
        for k, (i, a, b) in enumerate(zip(inputs, impl_obs, model_obs)):
            if a != b:
                mism.append({"index": k, "input": i, "impl": a, "model": b})
            key = to_line(i)
            if key not in seen:
                seen.add(key)
                if nontrivial is None or nontrivial(i, a):
                    nontriv += 1
        rec = {"cases": len(inputs), "distinct": len(seen), "distinct_nontrivial": nontriv,
               "mismatches": len(mism)}
        if histogram:
            rec["histogram"] = histogram
        self.out.coverage["correspondence"][name] = rec
        self.out.coverage["evaluations"] += len(inputs)
        self.out.coverage["distinct_nontrivial"] += nontriv
        if inputs:
            k = self.rnd.randrange(len(inputs))
            self.out.coverage["samples"].append(
                {"kind": "correspondence:" + name, "input": inputs[k], "impl": impl_obs[k], "model": model_obs[k]})
        ok_idx = [k for k in range(len(inputs)) if impl_obs[k] == model_obs[k]]
        self.rnd.shuffle(ok_idx)
        for k in ok_idx[:incoq_sample]:
            self.incoq.append((component, inputs[k], impl_obs[k]))
        if mism:
            self.out.broke("correspondence:" + name, mism[:5])
        return mism

    def finish_incoq(self, tag: str):
        if not self.incoq:
            return
        r = incoq_crosscheck(self.incoq, tag)
        self.out.coverage["in_coq_crosscheck"] = r
        if r["mismatch"]:
            self.out.broke("in-coq-crosscheck (extracted runner disagrees with vm_compute)", r["mismatch"][:10])
