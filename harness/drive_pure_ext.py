"""Implementation-side drivers for the pure helpers of C18 (StatRecorder, failure memory),
C19 (make_reltoroot, HostRSync.filter, rsync decisions) and C14 (warning (de)serialisation)."""
from __future__ import annotations

import contextlib
import io
import os
import re
import shutil
import sys
import tempfile
import types
import warnings
from pathlib import Path


# ------------------------------------------------------------------ C18
def snapshot(base: str):
    def node(p):
        name = os.path.basename(p)
        if os.path.isdir(p):
            return ["d", name, [node(os.path.join(p, x)) for x in sorted(os.listdir(p))]]
        st = os.stat(p)
        return ["f", name, int(st.st_mtime), int(st.st_size)]
    return ["d", "", [node(os.path.join(base, x)) for x in sorted(os.listdir(base))]]


def apply_fs_op(base, op):
    k = op[0]
    p = os.path.join(base, *op[1])
    if k == "write":
        os.makedirs(os.path.dirname(p), exist_ok=True)
        if os.path.isdir(p):
            return
        with open(p, "w") as f:
            f.write("x" * op[2])
        os.utime(p, (op[3], op[3]))
    elif k == "touch":
        if os.path.isfile(p):
            os.utime(p, (op[2], op[2]))
    elif k == "rm":
        if os.path.isfile(p):
            os.unlink(p)
    elif k == "mkdir":
        if not os.path.exists(p):
            os.makedirs(p, exist_ok=True)
    elif k == "rmdir":
        if os.path.isdir(p):
            shutil.rmtree(p)
    elif k == "mv":
        q = os.path.join(base, *op[2])
        if os.path.exists(p) and not os.path.exists(q) and os.path.isdir(os.path.dirname(q)):
            os.rename(p, q)


def statrec(job):
    """job: {roots: [[comp..]..], polls: [[fs ops..]..]}; first poll list = set-up before __init__"""
    from xdist.looponfail import StatRecorder
    base = tempfile.mkdtemp(prefix="sr-", dir=os.environ.get("VERIF_TMP"))
    try:
        snaps, flags = [], []
        sr = None
        for ops in job["polls"]:
            for op in ops:
                apply_fs_op(base, op)
            snaps.append(snapshot(base))
            with contextlib.redirect_stdout(io.StringIO()):
                if sr is None:
                    sr = StatRecorder([Path(base, *r) for r in job["roots"]])
                    flags.append(None)
                else:
                    flags.append(int(bool(sr.check())))
        cache = sorted([list(Path(p).relative_to(base).parts), int(st.st_mtime), int(st.st_size)]
                       for p, st in sr.statcache.items())
        return {"flags": flags, "snaps": snaps, "cache": cache}
    finally:
        shutil.rmtree(base, ignore_errors=True)


def remember(job):
    """RemoteControl.loop_once with a stubbed session"""
    from xdist.looponfail import RemoteControl
    cfg = types.SimpleNamespace(option=types.SimpleNamespace(debug=False))
    rc = RemoteControl(cfg)
    rc.failures = list(job["old"])
    rc.setup = lambda: None
    rc.runsession = lambda: (list(job["failures"]), [], bool(job["collection_failed"]))
    rc.loop_once()
    return list(rc.failures)


# ------------------------------------------------------------------ C19
def reltoroot(job):
    """job: {tree: [relative paths to create (dirs end with /)], roots: [str], args: [str]}; cwd = temp base"""
    from xdist.workermanage import make_reltoroot
    base = tempfile.mkdtemp(prefix="rr-", dir=os.environ.get("VERIF_TMP"))
    cwd = os.getcwd()
    try:
        for t in job["tree"]:
            p = os.path.join(base, t)
            if t.endswith("/"):
                os.makedirs(p, exist_ok=True)
            else:
                os.makedirs(os.path.dirname(p), exist_ok=True)
                open(p, "w").close()
        os.chdir(base)
        sub = lambda s: s.replace("$B", base)
        roots = [Path(sub(r)) for r in job["roots"]]
        args = [sub(a) for a in job["args"]]
        existing = [a.split("::")[0] for a in args if os.path.exists(a.split("::")[0])]
        try:
            res = make_reltoroot(roots, list(args))
        except ValueError:
            res = ["err", "ValueError"]
        unsub = lambda s: s.replace(base, "$B")
        return {"roots": [unsub(str(r)) for r in roots], "existing": [unsub(e) for e in existing],
                "args": [unsub(a) for a in args], "result": [unsub(x) for x in res]}
    finally:
        os.chdir(cwd)
        shutil.rmtree(base, ignore_errors=True)


def fnmatch_obs(job):
    import fnmatch
    return int(re.compile(fnmatch.translate(job["pat"])).match(job["s"]) is not None)


def rsync_filter(job):
    from xdist.workermanage import HostRSync
    with tempfile.TemporaryDirectory(dir=os.environ.get("VERIF_TMP")) as d:
        r = HostRSync(d, ignores=list(job["ignores"]))
        return int(bool(r.filter(job["path"])))


def specs_obs(job):
    """which specs need roots / transfer files / get their arguments rewritten"""
    import execnet
    import xdist.workermanage as wm
    specs = []
    for popen, chdir in job["specs"]:
        s = ("popen" if popen else "ssh=host") + ("//chdir=rem" if chdir else "")
        specs.append(execnet.XSpec("execmodel=main_thread_only//" + s))
    nm = wm.NodeManager.__new__(wm.NodeManager)
    nm.specs = specs
    nm.config = types.SimpleNamespace(option=types.SimpleNamespace(rsyncdir=[]), getini=lambda k: [],
                                      hook=types.SimpleNamespace(pytest_xdist_rsyncstart=lambda **k: None,
                                                                 pytest_xdist_rsyncfinish=lambda **k: None))
    nm._rsynced_specs = set()
    roots = nm._getrsyncdirs()
    per = []
    for sp in specs:
        sent = []
        nm._rsynced_specs = set()       # the per-(spec, source) de-duplication is not part of the decision observed here

        class FakeRSync:
            def __init__(self, *a, **k):
                pass

            def add_target_host(self, gw, finished=None):
                pass

            def send(self):
                sent.append(1)
        gw = types.SimpleNamespace(spec=sp, remote_exec=lambda src: types.SimpleNamespace(waitclose=lambda: None))
        orig = wm.HostRSync
        wm.HostRSync = FakeRSync
        try:
            nm.rsync(gw, "/src/pkg")
        finally:
            wm.HostRSync = orig
        # setup(): are the arguments rewritten through make_reltoroot?
        called = []
        orig_rel = wm.make_reltoroot
        wm.make_reltoroot = lambda roots_, args_: (called.append(1), list(args_))[1]
        try:
            chan = types.SimpleNamespace(send=lambda x: None, setcallback=lambda *a, **k: None)
            gw2 = types.SimpleNamespace(spec=sp, id="gw0", _rinfo=lambda: None, remote_exec=lambda m: chan)
            cfg = types.SimpleNamespace(
                pluginmanager=types.SimpleNamespace(register=lambda *a, **k: None),
                option=types.SimpleNamespace(debug=False), invocation_params=types.SimpleNamespace(args=("a",)),
                hook=types.SimpleNamespace(pytest_configure_node=lambda node: None,
                                           pytest_xdist_getremotemodule=lambda: None))
            nmx = types.SimpleNamespace(specs=specs, testrunuid="u", roots=[])
            node = wm.WorkerController(nmx, gw2, cfg, None)
            node.setup()
        finally:
            wm.make_reltoroot = orig_rel
        per.append([int(bool(sent)), int(bool(called))])
    return [int(bool(roots)), per]


# ------------------------------------------------------------------ C14
_MODS = {}


class _Text(str):
    """a str SUBCLASS (execnet serialises by exact type: not transferable)"""


def _extra_arg(k):
    """1: opaque object, 2: str subclass, 3: IntEnum member, 4: object nested in a list, 5: a transferable non-string"""
    import enum
    if k == 2:
        return _Text("styled")
    if k == 3:
        return enum.IntEnum("Code", "A B").B
    if k == 4:
        return ["fine", object()]
    if k == 5:
        return 2.5
    return object()


def _make_class(kind, modname, clsname):
    """kind: plain | ctor2 (constructor needs two arguments) | ctorboom (constructor raises ValueError when rebuilt)"""
    if kind == "ctor2":
        class W(UserWarning):
            def __init__(self, a, b):
                super().__init__(f"{a}-{b}")
    elif kind == "ctorboom":
        class W(UserWarning):
            _n = 0

            def __init__(self, *a):
                type(self)._n += 1
                if type(self)._n > 1:
                    raise ValueError("cannot rebuild")
                super().__init__(*a)
    else:
        class W(UserWarning):
            pass
    W.__name__ = clsname
    W.__qualname__ = clsname
    W.__module__ = modname
    return W


def warn_obs(job):
    """job: {msg: ["str", text] | ["inst", mod, cls, kind, undumpable, nargs, text-ignored], cat: [] | [mod, cls],
            importable: bool, has_attr: bool, filename, lineno}"""
    from xdist.remote import serialize_warning_message
    from xdist.workermanage import unserialize_warning_message
    created = []

    def ensure(modname, clsname, kind, importable, has_attr):
        if modname in ("builtins", "warnings"):
            return getattr(__import__(modname), clsname)
        m = types.ModuleType(modname)
        cls = _make_class(kind, modname, clsname)
        if has_attr:
            setattr(m, clsname, cls)
        if importable:
            sys.modules[modname] = m
            created.append(modname)
        return cls
    try:
        msg = job["msg"]
        cat = None
        if msg[0] == "inst":
            cls = ensure(msg[1], msg[2], msg[3], job["importable"], job["has_attr"])
            args = tuple(["a%d" % i for i in range(msg[5])])
            if msg[3] == "ctor2":
                inst = cls("x", "y")
            else:
                inst = cls(*args)
            if msg[4]:
                inst.args = inst.args + (_extra_arg(msg[4]),)
            message = inst
            cat = type(inst)
        else:
            message = msg[1]
        if job["cat"]:
            if msg[0] == "inst" and job["cat"] == [msg[1], msg[2]]:
                pass
            else:
                cat = ensure(job["cat"][0], job["cat"][1], "plain", job["importable"], job["has_attr"])
        elif msg[0] != "inst":
            cat = None
        wm_ = warnings.WarningMessage(message=message, category=cat, filename=job["filename"], lineno=job["lineno"])
        data = serialize_warning_message(wm_)
        # the wire: what channel.send does to the event (a DumpError here is raised inside the worker's hook)
        import execnet
        try:
            data = execnet.loads(execnet.dumps(data))
            wire = "ok"
        except execnet.DumpError:
            wire = "DumpError"
        text = data["message_str"]
        args_sent = data["message_args"]
        def show(out):
            m = out.message
            if isinstance(m, str):
                rm = ["str", m]
            elif type(m) is Warning and len(m.args) == 1 and isinstance(m.args[0], str) and ": " in m.args[0] and msg[0] == "inst" \
                    and m.args[0].startswith(f"{msg[1]}.{msg[2]}: "):
                rm = ["generic", m.args[0]]
            else:
                rm = ["inst", type(m).__module__, type(m).__name__, [str(a) for a in m.args]]
            rc = [] if out.category is None else [out.category.__module__, out.category.__name__]
            return ["ok", rm, rc, out.filename, out.lineno]
        sent = [text, None if args_sent is None else [str(a) for a in args_sent]]
        # (1) the function on its own
        if msg[0] == "inst" and msg[3] == "ctorboom":
            cls._n = 1
        try:
            direct = show(unserialize_warning_message(dict(data)))
        except BaseException as e:  # noqa: BLE001
            direct = ["err", type(e).__name__]
        # (2) the event handler in the receiver thread: the REAL process_from_remote
        import xdist.workermanage as wm
        queued = []
        cfg = types.SimpleNamespace(pluginmanager=types.SimpleNamespace(register=lambda *a, **k: None),
                                    option=types.SimpleNamespace(debug=False), notify_exception=lambda e: None)
        gw = types.SimpleNamespace(id="gw0", spec=None)
        node = wm.WorkerController(types.SimpleNamespace(specs=[None], testrunuid="u"), gw, cfg, queued.append)
        node.channel = types.SimpleNamespace(send=lambda x: queued.append(("SENT", x)), _getremoteerror=lambda: None)
        if msg[0] == "inst" and msg[3] == "ctorboom":
            cls._n = 1
        with contextlib.redirect_stdout(io.StringIO()):
            node.process_from_remote(("warning_recorded", {"warning_message_data": dict(data), "when": "runtest",
                                                           "nodeid": "n", "location": None}))
        names = [q[0] for q in queued]
        if names == ["warning_recorded"]:
            handled = show(queued[0][1]["warning_message"])
        else:
            handled = ["written-off", names]
        return {"data": sent, "result": direct, "handled": handled, "wire": wire}
    finally:
        for mn in created:
            sys.modules.pop(mn, None)


def dispatch(job):
    k = job["kind"]
    if k == "statrec":
        return statrec(job)
    if k == "remember":
        return remember(job)
    if k == "reltoroot":
        return reltoroot(job)
    if k == "fnmatch":
        return fnmatch_obs(job)
    if k == "rsync_filter":
        return rsync_filter(job)
    if k == "specs":
        return specs_obs(job)
    if k == "warn":
        return warn_obs(job)
    return ["unknown-kind"]
