"""Implementation-side driver for the scheduler models: drives the REAL scheduler classes
(with REAL WorkerController objects on fake channels) with operation sequences that are
generated online from a seed (so that they follow what the scheduler actually did), and
returns the op list together with per-op observations. The model replays the op list."""
from __future__ import annotations

import zlib
import json
import random
import re
import sys
import types

EXC_NAMES = {"KeyError", "ValueError", "AssertionError", "OSError", "NotImplementedError",
             "ZeroDivisionError", "IndexError", "TypeError"}
MODES = ["load", "worksteal", "loadscope", "loadfile", "loadgroup", "each"]


class FakePM:
    def getplugin(self, n):
        return None

    def register(self, *a, **k):
        pass


class Log:
    def __init__(self, owner):
        self.owner = owner

    def __getattr__(self, n):
        return self

    def __call__(self, *a):
        msg = " ".join(str(x) for x in a)
        m = re.search(r"collected between (\S+) and (\S+)\.", msg)
        if m:
            self.owner.outs.append(["logdiff", int(m.group(1)[2:]), int(m.group(2)[2:])])


class Chan:
    def __init__(self, env, nid):
        self.env, self.nid, self.closed = env, nid, False

    def send(self, obj):
        if self.closed:
            raise OSError("cannot send to <Channel id=1 closed>")
        name, kw = obj
        if name == "runtests":
            c = ["run", [int(x) for x in kw["indices"]]]
        elif name == "runtests_all":
            c = ["runall"]
        elif name == "steal":
            c = ["steal", [int(x) for x in kw["indices"]]]
        elif name == "shutdown":
            c = ["shutdown"]
        else:
            c = [name]
        self.env.outs.append(["send", self.nid, c])

    def _getremoteerror(self):
        return None


class Env:
    """a scheduler under test plus the nodes it talks to"""

    def __init__(self, mode, numnodes, chunk):
        import xdist.dsession as ds
        from xdist.workermanage import WorkerController
        self.WorkerController = WorkerController
        self.mode = mode
        self.outs = []
        self.logs = []
        self.nodes = {}
        env = self

        class Hook:
            def __getattr__(self, name):
                def call(**kw):
                    if name == "pytest_collectreport":
                        rep = kw["report"]
                        m = re.search(r"collected between (\S+) and (\S+)\.", str(rep.longrepr))
                        pair = [int(m.group(1)[2:]), int(rep.nodeid[2:])]
                        if env.outs and env.outs[-1] == ["logdiff"] + pair:
                            env.outs.pop()
                        env.outs.append(["colldiff"] + pair)
                return call
        self.collect_msgs = []
        self.config = types.SimpleNamespace(
            option=types.SimpleNamespace(debug=False, verbose=0, dist=mode), hook=Hook(), pluginmanager=FakePM())
        vals = {"tx": ["popen"] * numnodes, "maxschedchunk": chunk, "dist": mode}
        self.config.getvalue = lambda k: vals[k]
        self.config.getoption = lambda k, d=None: vals.get(k, d)
        self.config.notify_exception = lambda e: None
        sess = types.SimpleNamespace(config=self.config, log=Log(self))
        self.sched = ds.DSession.pytest_xdist_make_scheduler(sess, self.config, Log(self))
        self.nm = types.SimpleNamespace(specs=[None] * numnodes, testrunuid="uid")

    def new_node(self, n, spec):
        gw = types.SimpleNamespace(id="gw%d" % n, spec=("spec", spec))
        node = self.WorkerController(self.nm, gw, self.config, lambda ev: None)
        node.channel = Chan(self, n)
        self.nodes[n] = node

    def view(self):
        s = self.sched
        return [[int(x.gateway.id[2:]) for x in s.nodes], int(bool(s.tests_finished)), int(bool(s.has_pending)),
                int(bool(s.collection_is_completed)),
                [[n, int(bool(node._shutdown_sent))] for n, node in self.nodes.items()]]

    def apply(self, op):
        self.outs = []
        self.logs.clear()
        self.collect_msgs = []
        k = op[0]
        s = self.sched
        res = ["ok"]
        try:
            if k == "new":
                self.new_node(op[1], op[2])
            elif k == "add":
                s.add_node(self.nodes[op[1]])
            elif k == "coll":
                s.add_node_collection(self.nodes[op[1]], list(op[2]))
            elif k == "sched":
                s.schedule()
            elif k == "done":
                s.mark_test_complete(self.nodes[op[1]], op[2], op[3] / 1000.0)
            elif k == "pending":
                s.mark_test_pending(op[1])
            elif k == "unsched":
                s.remove_pending_tests_from_node(self.nodes[op[1]], list(op[2]))
            elif k == "remove":
                r = s.remove_node(self.nodes[op[1]])
                if r is not None:
                    res = ["ok", r]
            elif k == "flags":
                self.nodes[op[1]]._down = bool(op[2])
                self.nodes[op[1]].channel.closed = bool(op[3])
            elif k == "shutdown":
                self.nodes[op[1]].shutdown()
            else:
                raise RuntimeError("bad op")
        except BaseException as e:  # noqa: BLE001
            name = type(e).__name__
            res = ["err", name if name in EXC_NAMES else "Exception"]
        return [list(self.outs), res, self.view()]


def make_ids(rnd, k, style):
    """collection of k ids; style selects the grouping structure"""
    ids = []
    for i in range(k):
        f = rnd.randrange(max(1, k // 3 + 1))
        if style == "flat":
            ids.append("t.py::t%d" % i)
        elif style == "files":
            ids.append("f%d.py::t%d" % (f, i))
        elif style == "classes":
            ids.append("f%d.py::C%d::t%d" % (f % 2, f, i))
        elif style == "groups":
            g = rnd.choice(["", "@g%d" % (f % 3)])
            ids.append("f%d.py::t%d[%d]%s" % (f % 2, i, i, g))
        else:
            ids.append("f%d.py::t%d" % (f, i))
    if style != "flat":
        ids.sort(key=lambda s: s.split("::")[0])
    return ids


def wellformed(job):
    """online generation: behaves like DSession + workers, abstractly"""
    rnd = random.Random(job["seed"])
    mode = job["mode"]
    nn = rnd.randint(1, 4)
    chunk = rnd.choice([None, None, 1, 2, 3, 0, -1]) if mode == "load" else None
    env = Env(mode, nn, chunk)
    k = rnd.choice([0, 1, 2, 3, 5, 8, 13, 21, 34])
    style = rnd.choice(["flat", "files", "classes", "groups"])
    ids = make_ids(rnd, k, style)
    p_crash = rnd.choice([0.0, 0.0, 0.03, 0.1])
    p_diffcoll = rnd.choice([0.0, 0.0, 0.0, 0.3])
    p_requeue = rnd.choice([0.0, 0.5]) if mode in ("load", "worksteal") else 0.0
    ops, obs = [], []
    book = {}          # node -> indices sent and not yet completed (worker's FIFO view)
    sdsent = set()
    alive = []
    nextid = [0]
    restarts = [0]
    steal = [None]     # (node, indices) outstanding

    def do(op):
        ops.append(op)
        o = env.apply(op)
        obs.append(o)
        for out in o[0]:
            if out[0] == "send":
                n, c = out[1], out[2]
                if c[0] == "run":
                    book.setdefault(n, []).extend(c[1])
                elif c[0] == "runall":
                    book.setdefault(n, []).extend(range(len(ids)))
                elif c[0] == "shutdown":
                    sdsent.add(n)
                elif c[0] == "steal":
                    steal[0] = (n, list(c[1]))
        return o

    def coll_for(n):
        if rnd.random() < p_diffcoll and ids:
            alt = list(ids)
            r = rnd.random()
            if r < 0.4:
                rnd.shuffle(alt)
            elif r < 0.7:
                alt = alt[:-1]
            else:
                alt = alt + ["extra.py::x"]
            return alt
        return list(ids)

    specs = {}

    def start_node(spec=0):
        n = nextid[0]
        specs[n] = spec
        nextid[0] += 1
        do(["new", n, spec])
        alive.append(n)
        book[n] = []
        return n

    pending_ready, pending_coll = [], []
    for i in range(nn):
        pending_ready.append(start_node(spec=rnd.choice([0, 0, 1]) if mode == "each" else 0))
    shuttingdown = False
    steps = 0
    while steps < 400:
        steps += 1
        acts = []
        if pending_ready:
            acts += ["ready"] * 3
        if pending_coll:
            acts += ["coll"] * 3
        runnable = [n for n in alive if book.get(n)]
        # a worker can only complete its first booked test if it knows a successor or shutdown
        can_run = [n for n in runnable if len(book[n]) >= 2 or n in sdsent]
        if can_run:
            acts += ["done"] * 6
        if steal[0] is not None and steal[0][0] in alive:
            acts += ["unsched"] * 2
        fin = [n for n in alive if n in sdsent and not book.get(n) and n not in pending_ready and n not in pending_coll]
        if fin:
            acts += ["finish"] * 2
        if alive and rnd.random() < p_crash and restarts[0] < 4:
            acts += ["crash"]
        if not acts:
            break
        a = rnd.choice(acts)
        if a == "ready":
            n = pending_ready.pop(rnd.randrange(len(pending_ready)))
            if shuttingdown:
                do(["shutdown", n])
            else:
                do(["add", n])
            pending_coll.append(n)
        elif a == "coll":
            n = pending_coll.pop(rnd.randrange(len(pending_coll)))
            if not shuttingdown:
                o = do(["coll", n, coll_for(n)])
                if o[1][0] == "ok" and o[2][3]:
                    o = do(["sched"])
                    if o[1][0] == "err":
                        break
        elif a == "done":
            n = rnd.choice(can_run)
            idx = book[n].pop(0)
            o = do(["done", n, idx, rnd.choice([0, 0, 50, 100, 500])])
            if o[1][0] == "err":
                break
        elif a == "unsched":
            n, req = steal[0]
            steal[0] = None
            # the worker grants the request only if every requested test is still queued behind
            # the (up to two) tests it has already taken
            queued = book.get(n, [])[2:] if rnd.random() < 0.8 else book.get(n, [])[1:]
            if all(x in queued for x in req) and rnd.random() < 0.85:
                reply = list(req)
                book[n] = [x for x in book[n] if x not in req]
            else:
                reply = []
            o = do(["unsched", n, reply])
            if o[1][0] == "err":
                break
        elif a == "finish":
            n = rnd.choice(fin)
            do(["flags", n, 1, rnd.randint(0, 1)])
            if n in env.view()[0]:
                do(["remove", n])
            alive.remove(n)
        elif a == "crash":
            n = rnd.choice(alive)
            do(["flags", n, 1, rnd.randint(0, 1)])
            alive.remove(n)
            if n in pending_ready:
                pending_ready.remove(n)
            if n in pending_coll:
                pending_coll.remove(n)
            if steal[0] is not None and steal[0][0] == n:
                steal[0] = None
            o = do(["remove", n])
            if o[1][0] == "ok" and len(o[1]) > 1 and rnd.random() < p_requeue:
                o2 = do(["pending", o[1][1]])
                if o2[1][0] == "err":
                    break
            elif o[1][0] == "err" and o[1][1] != "KeyError":
                break
            book[n] = []
            restarts[0] += 1
            shuttingdown = False
            pending_ready.append(start_node(specs[n]))
        # DSession: if tests_finished -> triggershutdown
        v = env.view()
        if v[1] and not shuttingdown:
            shuttingdown = True
            for n in v[0]:
                do(["shutdown", n])
    return {"mode": mode, "numnodes": nn, "chunk": chunk, "ops": ops, "obs": obs,
            "meta": {"tests": k, "style": style, "crashes": restarts[0]}}


def malformed(job):
    """random operations with mostly plausible but unchecked arguments"""
    rnd = random.Random(job["seed"])
    mode = job["mode"]
    nn = rnd.randint(1, 3)
    chunk = rnd.choice([None, 1, 2]) if mode == "load" else None
    env = Env(mode, nn, chunk)
    k = rnd.choice([0, 1, 3, 6])
    ids = make_ids(rnd, k, rnd.choice(["flat", "files", "groups"]))
    ops, obs = [], []
    known = []
    for _ in range(rnd.randint(3, 30)):
        r = rnd.random()
        n = rnd.choice(known) if known and rnd.random() < 0.9 else len(known)
        if r < 0.12 or not known:
            n = len(known)
            op = ["new", n, rnd.randint(0, 1)]
            known.append(n)
        elif r < 0.27:
            op = ["add", n]
        elif r < 0.42:
            c = list(ids)
            if rnd.random() < 0.2:
                c = c[::-1]
            op = ["coll", n, c]
        elif r < 0.52:
            op = ["sched"]
        elif r < 0.70:
            op = ["done", n, rnd.randrange(max(1, k + 1)), rnd.choice([0, 100])]
        elif r < 0.75:
            op = ["pending", rnd.choice(ids + ["nope"])]
        elif r < 0.80:
            op = ["unsched", n, [rnd.randrange(max(1, k)) for _ in range(rnd.randint(0, 2))]]
        elif r < 0.90:
            op = ["remove", n]
        elif r < 0.95:
            op = ["flags", n, rnd.randint(0, 1), rnd.randint(0, 1)]
        else:
            op = ["shutdown", n]
        if op[0] != "new" and op[0] not in ("sched", "pending") and op[1] not in env.nodes:
            continue
        ops.append(op)
        obs.append(env.apply(op))
    return {"mode": mode, "numnodes": nn, "chunk": chunk, "ops": ops, "obs": obs,
            "meta": {"tests": k, "style": "malformed", "crashes": 0}}


def split_obs(job):
    from xdist.scheduler import LoadFileScheduling, LoadGroupScheduling, LoadScopeScheduling
    cls = {"loadscope": LoadScopeScheduling, "loadfile": LoadFileScheduling, "loadgroup": LoadGroupScheduling}
    return [cls[k]._split_scope(None, s) for k, s in job["cases"]]


def groupmark_obs(job):
    """the worker's half of loadgroup: the REAL WorkerInteractor.pytest_collection_modifyitems on stand-in items,
    then the controller's REAL LoadGroupScheduling._split_scope on the id the worker produced.
    case: [loadgroup(0/1), nodeid, [] | [[positional args], [] | [name keyword]]]"""
    import types
    from xdist.remote import WorkerInteractor
    from xdist.scheduler import LoadGroupScheduling
    out = []
    for lg, nodeid, m in job["cases"]:
        mark = None
        if m:
            mark = types.SimpleNamespace(name="xdist_group", args=tuple(m[0]), kwargs=({"name": m[1][0]} if m[1] else {}))
        # where the mark sits: on the test function itself, or inherited from its class / module (pytestmark):
        # only a mark on the function is among the item's OWN markers (decided by the id, so that a case replays)
        own = bool(mark) and zlib.crc32(nodeid.encode()) % 3 == 0
        other = types.SimpleNamespace(name="slow", args=(), kwargs={})
        item = types.SimpleNamespace(nodeid=nodeid, _nodeid=nodeid, own_markers=[other] + ([mark] if own else []),
                                     get_closest_marker=lambda name, default=None, mark=mark: mark if name == "xdist_group" and mark else default,
                                     iter_markers=lambda name=None, mark=mark, other=other: iter([x for x in ([mark] if mark else []) + [other]
                                                                                                  if name is None or x.name == name]))
        cfg = types.SimpleNamespace(getvalue=lambda name, lg=lg: bool(lg) if name == "loadgroup" else None)
        try:
            WorkerInteractor.pytest_collection_modifyitems(types.SimpleNamespace(), cfg, [item])
            out.append([item._nodeid, LoadGroupScheduling._split_scope(None, item._nodeid)])
        except Exception as e:  # noqa: BLE001
            out.append(["exc", type(e).__name__])
    return out


def replay(job):
    env = Env(job["mode"], job["numnodes"], job["chunk"])
    return [env.apply(op) for op in job["ops"]]


def main():
    for line in sys.stdin:
        job = json.loads(line)
        try:
            if job["kind"] == "wf":
                r = wellformed(job)
            elif job["kind"] == "mal":
                r = malformed(job)
            elif job["kind"] == "split":
                r = split_obs(job)
            elif job["kind"] == "groupmark":
                r = groupmark_obs(job)
            elif job["kind"] == "replay":
                r = replay(job)
            else:
                r = ["unknown"]
        except BaseException as e:  # noqa: BLE001
            import traceback
            r = ["driver-exc", type(e).__name__, traceback.format_exc()[-800:]]
        sys.stdout.write(json.dumps(r) + "\n")
        sys.stdout.flush()


if __name__ == "__main__":
    main()
