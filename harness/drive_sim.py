"""Whole-session correspondence driver: builds a random configuration from a seed, runs the
simulator of the REAL classes under an online-generated schedule and returns the wire-form
configuration, the schedule and the per-step observations (the model replays the schedule)."""
from __future__ import annotations

import json
import random
import sys

from drive_sched import make_ids
from sim import Sim

MODES = ["load", "worksteal", "loadscope", "loadfile", "loadgroup", "each"]


def make_cfg(rnd, job):
    mode = job.get("mode") or rnd.choice(MODES)
    nn = rnd.randint(1, 3)
    k = rnd.choice([0, 1, 2, 3, 4, 5, 6, 8, 10, 13])
    if job.get("big"):         # thorough tier: a share of larger sessions
        nn = rnd.randint(2, 5)
        k = rnd.choice([13, 21, 34])
    style = rnd.choice(["flat", "files", "classes", "groups"])
    ids = make_ids(rnd, k, style)
    profile = job.get("profile", "mixed")
    crash_p = {"nocrash": 0.0, "crash": 0.6, "mixed": 0.3}[profile]
    crashers = []
    if rnd.random() < crash_p and k:
        for _ in range(rnd.randint(1, 2)):
            crashers.append([rnd.randrange(nn + 2), rnd.randrange(k)])
    if job.get("allcrash") and k:
        crashers = [[n, i] for n in range(nn + 8) for i in range(k)]
    overrides = {}
    if profile != "nocrash" and rnd.random() < 0.1 and k:
        n = rnd.randrange(nn + 2)
        alt = list(ids)
        rnd.shuffle(alt)
        overrides[n] = alt if rnd.random() < 0.5 else list(ids[:-1]) + ["other.py::x"]
    reports = [[rnd.choice([0, 0, 0, 0, 1, 2]) for _ in range(rnd.choice([1, 1, 3]))] for _ in range(k)]
    if profile != "nocrash" and k and rnd.random() < 0.12:
        # a report the controller cannot rebuild (outcome 3): the worker is written off for an undecodable message
        i = rnd.randrange(k)
        reports[i] = [3 if rnd.random() < 0.6 else x for x in reports[i]]
        if 3 not in reports[i]:
            reports[i][rnd.randrange(len(reports[i]))] = 3
    maxfail = rnd.choice([0, 0, 0, 1, 2]) if profile != "nocrash" else 0
    if profile == "nocrash":
        reports = [[rnd.choice([0, 0, 2]) for _ in r] for r in reports]
    cfg = {
        "mode": mode, "numnodes": nn, "chunk": rnd.choice([None, None, 1, 2, 3]) if mode == "load" else None,
        "maxfail": maxfail, "max_restart": rnd.choice([None, 0, 1, 2, 4, 4 * nn]) if profile != "nocrash" else 4 * nn,
        "requeue": rnd.choice([0, 0, 1, 2]) if mode in ("load", "worksteal") and profile != "nocrash" else 0,
        "strict": rnd.random() < 0.3, "coll": ids, "overrides": overrides, "reports": reports,
        "stops": [i for i in range(k) if rnd.random() < 0.04] if profile != "nocrash" else [],
        "crashers": crashers, "durs": [rnd.choice([0, 0, 50, 100, 300]) for _ in range(k)],
        "specs": [rnd.choice([0, 0, 1]) if mode == "each" else 0 for _ in range(nn)],
        "collreports": {},
    }
    if profile != "nocrash" and rnd.random() < 0.1:
        key = rnd.randrange(3)
        for n in range(nn + 1):
            cfg["collreports"][n] = [[key if rnd.random() < 0.7 else key + 1 + n, 1]]
    return cfg


def cfg_wire(cfg):
    return [cfg["mode"], cfg["numnodes"], [] if cfg["chunk"] is None else [cfg["chunk"]], cfg["maxfail"],
            [] if cfg["max_restart"] is None else [cfg["max_restart"]], cfg["requeue"], int(cfg["strict"]),
            cfg["coll"], [[int(n), c] for n, c in sorted(cfg["overrides"].items())], cfg["reports"], cfg["stops"],
            cfg["crashers"], cfg["durs"], cfg["specs"],
            [[int(n), l] for n, l in sorted(cfg["collreports"].items())]]


def summarize(sim):
    return {
        "result": sim.result,
        "ran": {n: w.ran for n, w in sim.workers.items()},
        "completed": {n: w.completed for n, w in sim.workers.items()},
        "crash_info": sim.crash_info,
        "dead": sorted(n for n, w in sim.workers.items() if w.dead),
        "exited": sorted(n for n, w in sim.workers.items() if w.exited),
        "sent": sim.sent,
        "queues": {n: w.queue_obs() for n, w in sim.workers.items()},
        "nworkers": len(sim.workers),
        "testscollected": getattr(sim.ds._session, "testscollected", None),
        "summary_report": getattr(sim.ds, "_summary_report", None),
        "exc": repr(getattr(sim, "exc", None))[:300] if getattr(sim, "exc", None) is not None else None,
        "exc_site": exc_site(getattr(sim, "exc", None)),
    }


def exc_site(e):
    if e is None:
        return None
    import traceback
    tb = traceback.extract_tb(e.__traceback__)
    frames = [f"{t.filename.split('/')[-1]}:{t.name}" for t in tb if "/xdist/" in t.filename]
    return frames[-3:]


def steal_victim(sim):
    """the node a steal request is outstanding on (a death there is the interesting crash point)"""
    node = getattr(getattr(sim.ds, "sched", None), "steal_requested_from_node", None)
    if node is None:
        return None
    return int(node.gateway.id[2:])


def early_collected(sim):
    """live nodes whose collection the scheduler has registered while the initial collection phase is still open
    (a death there must not count towards 'everybody has collected')"""
    sched = getattr(sim.ds, "sched", None)
    if sched is None:
        return []
    try:
        if sched.collection_is_completed:
            return []
    except Exception:  # noqa: BLE001
        return []
    regs = getattr(sched, "node2collection", None)
    if regs is None:
        regs = getattr(sched, "registered_collections", {})
    return [int(n.gateway.id[2:]) for n in regs]


def run_online(job):
    rnd = random.Random(job["seed"])
    cfg = job.get("cfg") or make_cfg(rnd, job)
    cfg["overrides"] = {int(k): v for k, v in (cfg.get("overrides") or {}).items()}
    cfg["collreports"] = {int(k): v for k, v in (cfg.get("collreports") or {}).items()}
    sim = Sim(cfg)
    labels, obs = [], []
    ext_crash_p = job.get("ext_crash_p", 0.0)
    ncrash = 0
    maxsteps = job.get("maxsteps", 8000 if job.get("big") else 1500)
    stuck = False
    bias = rnd.choice(["uniform", "ctl-first", "workers-first", "slow-recv"])
    try:
        for _ in range(maxsteps):
            if sim.result is not None:
                break
            acts = sim.enabled()
            if not acts:
                stuck = True
                break
            if rnd.random() < 0.03:      # a label that may well be disabled
                lab = rnd.choice([["main", rnd.randrange(4)], ["recvw", rnd.randrange(4)], ["ctl"],
                                  ["deliver", rnd.randrange(4)], ["recv", rnd.randrange(4)]])
            elif ext_crash_p and ncrash < 3 and rnd.random() < ext_crash_p * (6 if (steal_victim(sim) is not None or early_collected(sim)) else 1):
                live = [n for n, w in sim.workers.items() if not w.dead and not w.exited]
                if not live:
                    continue
                v = steal_victim(sim)
                early = [n for n in early_collected(sim) if n in live]
                if v in live and rnd.random() < 0.7:
                    lab = ["crash", v]
                elif early and rnd.random() < 0.7:
                    lab = ["crash", rnd.choice(early)]
                else:
                    lab = ["crash", rnd.choice(live)]
                ncrash += 1
            else:
                if bias == "ctl-first" and ["ctl"] in acts and rnd.random() < 0.7:
                    lab = ["ctl"]
                elif bias == "workers-first" and rnd.random() < 0.7:
                    ws = [a for a in acts if a[0] in ("main", "recvw", "deliver")]
                    lab = rnd.choice(ws or acts)
                elif bias == "slow-recv" and rnd.random() < 0.7:
                    ws = [a for a in acts if a[0] != "recv"]
                    lab = rnd.choice(ws or acts)
                else:
                    lab = rnd.choice(acts)
            labels.append(lab)
            obs.append(sim.step(lab))
        out = {"cfg": cfg, "wire": cfg_wire(cfg), "labels": labels, "obs": obs, "stuck": stuck,
               "summary": summarize(sim), "ctl_events": sim.ctl_events}
    finally:
        sim.dispose()
    return out


def run_replay(job):
    sim = Sim(job["cfg"])
    try:
        obs = [sim.step(l) for l in job["labels"]]
        return {"cfg": job["cfg"], "labels": job["labels"], "obs": obs, "summary": summarize(sim),
                "ctl_events": sim.ctl_events, "stuck": (sim.result is None and not sim.enabled())}
    finally:
        sim.dispose()


def main():
    for line in sys.stdin:
        job = json.loads(line)
        try:
            if job["kind"] == "online":
                r = run_online(job)
            elif job["kind"] == "replay":
                r = run_replay(job)
            else:
                r = ["unknown"]
        except BaseException as e:  # noqa: BLE001
            import traceback
            r = ["driver-exc", type(e).__name__, traceback.format_exc()[-1500:]]
        sys.stdout.write(json.dumps(r, default=lambda o: sorted(o) if isinstance(o, set) else str(o)) + "\n")
        sys.stdout.flush()


if __name__ == "__main__":
    main()
