"""Generators + implementation-side monitors for worker-level op sequences."""
from __future__ import annotations


def gen_case(rnd, wf=True):
    n = rnd.randint(1, 8)
    reports = [[rnd.choice([0, 0, 0, 1, 2]) for _ in range(rnd.choice([1, 1, 3]))] for _ in range(n)]
    stops = [i for i in range(n) if rnd.random() < 0.06]
    coll = [[k, rnd.randint(0, 1)] for k in range(rnd.choice([0, 0, 0, 1, 2]))]
    # command stream
    cmds = []
    unsent = list(range(n))
    if not wf:
        unsent = [rnd.randrange(n) for _ in range(rnd.randint(1, 10))]
    queued = []           # what the controller believes is queued (for plausible steals)
    shutdown_sent = False
    for _ in range(rnd.randint(1, 7)):
        r = rnd.random()
        if unsent and r < 0.5:
            k = rnd.randint(1, min(4, len(unsent)))
            chunk, unsent = unsent[:k], unsent[k:]
            cmds.append(["run", chunk]); queued += chunk
        elif r < 0.8:
            kind = rnd.random()
            if queued and kind < 0.6:      # tail of the believed queue
                k = rnd.randint(1, len(queued))
                req = queued[-k:]
            elif kind < 0.75:               # superset / unknown indices
                req = queued[-2:] + [rnd.randrange(n + 3)]
            elif kind < 0.9:                # duplicates
                req = (queued[-2:] or [0]) * 2
            else:
                req = [rnd.randrange(n + 2) for _ in range(rnd.randint(0, 3))]
            cmds.append(["steal", req])
            if wf:
                queued = [x for x in queued if x not in req]   # optimistic; only used to shape requests
        elif r < 0.93 and not shutdown_sent:
            cmds.append(["shutdown"]); shutdown_sent = rnd.random() < 0.8
        elif r < 0.96:
            cmds.append(["run", []])
        elif not wf and r < 0.99:
            cmds.append(["runall"])
    if rnd.random() < 0.75 and not shutdown_sent:
        cmds.append(["shutdown"])
    if rnd.random() < 0.1:
        cmds.append(["end"])
    # interleave: deliveries in order, receiver and main steps in between
    ops = []
    pend = list(cmds)
    pm = rnd.choice([0.3, 0.5, 0.7])
    budget = 12 + 6 * n + 3 * len(cmds)
    while budget > 0:
        budget -= 1
        r = rnd.random()
        if pend and r < 0.25:
            ops.append(["d", pend.pop(0)])
        elif r < 0.25 + (0.75 * (1 - pm)):
            ops.append("r")
        else:
            ops.append("m")
    for c in pend:
        ops.append(["d", c])
    if rnd.random() < 0.7:   # drain
        ops += ["r", "m"] * (6 * n + 12)
    return {"n": n, "reports": reports, "stops": stops, "coll": coll, "ops": ops, "wf": wf}


def model_input(job):
    return [[job["n"], job["reports"], job["stops"], job["coll"]], job["ops"]]


def monitor(job, trace):
    """property monitors over a per-step implementation trace; returns list of (signature, detail)"""
    bad = []
    if not trace or not isinstance(trace[-1], list) or (trace and trace[0] and trace[0][0] == "exc") or trace[0] == "exc":
        return bad
    final = trace[-1]
    _q, _flag, ran, events, exited = final
    # C05: true next item
    for k, (i, nx) in enumerate(ran):
        if k + 1 < len(ran):
            if nx == [] or nx[0] != ran[k + 1][0]:
                bad.append(({"kind": "nextitem-wrong"}, {"ran": ran, "at": k}))
        else:
            if nx == [] and not exited and k + 1 == len(ran):
                pass
    if exited and ran and ran[-1][1] != [] and not (set(job["stops"]) & {ran[-1][0]}):
        bad.append(({"kind": "last-test-announced-successor-not-run"}, {"ran": ran}))
    none_pos = [k for k, (_i, nx) in enumerate(ran) if nx == []]
    if any(k != len(ran) - 1 for k in none_pos):
        bad.append(({"kind": "nextitem-none-not-last"}, {"ran": ran}))
    cmds = [op[1] for op in job["ops"] if isinstance(op, list)]
    if not any(c[0] == "steal" for c in cmds):
        # no withdrawals at all (any stream, repeated indices and run-all included): the worker runs exactly what was
        # delivered before the first shutdown/end, in that order (a prefix of it while it has not exited)
        given = []
        for c in cmds:
            if c[0] in ("shutdown", "end"):
                break
            given += list(c[1]) if c[0] == "run" else list(range(job["n"])) if c[0] == "runall" else []
        got = [i for i, _ in ran]
        stopped = bool(set(job["stops"]) & set(got))
        if got != given[:len(got)] or (exited and not stopped and len(got) != len(given)
                                       and any(c[0] in ("shutdown", "end") for c in cmds)):
            bad.append(({"kind": "lost-or-extra-test"}, {"ran": got, "given": given, "exited": exited}))
    if job.get("wf"):
        # assignment order: ran is a subsequence of the delivered order
        delivered = []
        for op in job["ops"]:
            if isinstance(op, list) and op[1][0] == "run":
                delivered += op[1][1]
        pos = {x: k for k, x in enumerate(delivered)}
        seq = [pos.get(i, -1) for i, _ in ran]
        if any(a >= b for a, b in zip(seq, seq[1:])) or -1 in seq:
            bad.append(({"kind": "order-violated"}, {"ran": ran, "delivered": delivered}))
        # steals: all or nothing, never started/announced tests, exact accounting
        prev_events = 0
        prev_q = []
        prev_ran = []
        steal_reqs = []
        for op, ob in zip(job["ops"], trace):
            q, _f, r, evs, _e = ob
            if isinstance(op, list) and op[1][0] == "steal":
                steal_reqs.append(op[1][1])
            new = evs[prev_events:]
            for ev in new:
                if ev[0] == "unscheduled":
                    started = {i for i, _ in r} | {nx[0] for _, nx in r if nx}
                    if set(ev[1]) & started:
                        bad.append(({"kind": "stole-started-or-announced"}, {"reply": ev[1], "ran": r}))
            prev_events = len(evs)
            prev_q, prev_ran = q, r
        replies = [ev[1] for ev in events if ev[0] == "unscheduled"]
        for req, rep in zip(steal_reqs, replies):
            if rep and set(rep) != set(req):
                bad.append(({"kind": "steal-partial"}, {"request": req, "reply": rep}))
        stolen = {x for rep in replies for x in rep}
        if exited and not (set(job["stops"]) & {i for i, _ in ran}):
            # everything delivered before the first shutdown that was not stolen must have run, in order
            expect = []
            for op in job["ops"]:
                if isinstance(op, list):
                    if op[1][0] in ("shutdown", "end"):
                        break
                    if op[1][0] == "run":
                        expect += [x for x in op[1][1] if x not in stolen]
            got = [i for i, _ in ran]
            if got != expect:
                bad.append(({"kind": "lost-or-extra-test"}, {"ran": got, "expected": expect, "stolen": sorted(stolen)}))
    return bad
