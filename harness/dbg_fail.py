import sys, json, collections
sys.path.insert(0, '/verif/harness')
import common
profile = sys.argv[1]; n = int(sys.argv[2]); base = int(sys.argv[3]) if len(sys.argv) > 3 else 0
jobs = [{"kind": "online", "seed": base + i, "profile": profile, "ext_crash_p": 0.01} for i in range(n)]
res = common.run_jobs("drive_sim.py", jobs, nproc=14)
cats = collections.defaultdict(list)
for j, r in zip(jobs, res):
    if not isinstance(r, dict): continue
    s = r["summary"]
    if r["stuck"]:
        cats[(r["cfg"]["mode"], "STUCK")].append((j["seed"], r))
    elif s["result"] and s["result"][0] == "error":
        cats[(r["cfg"]["mode"], s["result"][1], tuple(s["exc_site"] or []))].append((j["seed"], r))
for k, v in sorted(cats.items(), key=lambda kv: str(kv[0])):
    seed, r = min(v, key=lambda x: len(x[1]["labels"]))
    print(len(v), k, "shortest seed", seed, "steps", len(r["labels"]))
    cfg = r["cfg"]
    print("    cfg:", {a: b for a, b in cfg.items() if a not in ("reports", "durs")})
    print("    exc:", r["summary"]["exc"])
    ctl = [(l, o[0]) for l, o in zip(r["labels"], r["obs"]) if l[0] in ("ctl", "crash") or (l[0] == "main" and o != ["disabled"] and o[0] == [] and o[1] == [])]
    for l, o in ctl[-14:]:
        print("      ", l, o)
    print("    queues", r["summary"]["queues"], "dead", r["summary"]["dead"], "exited", r["summary"]["exited"])
