"""Implementation-side driver for the worker model (C05, C07 worker side):
runs op sequences (deliver command / receiver step / main step) against the real
WorkerInteractor + TestQueue under the cooperative scheduler."""
from __future__ import annotations

import json
import sys

from coop import Sched
from wsim import OUTCOMES, WorkerSim


def to_real_cmd(c):
    k = c[0]
    if k == "run":
        return ("runtests", {"indices": list(c[1])})
    if k == "runall":
        return ("runtests_all", {})
    if k == "steal":
        return ("steal", {"indices": list(c[1])})
    if k == "shutdown":
        return ("shutdown", {})
    if k == "end":
        return "END"
    raise ValueError(k)


def run_case(job):
    """job: {n: ncollected, reports: [[int..]..], stops: [..], coll: [[k,f]..], ops: [...], trace: bool}"""
    sched = Sched()
    sched.fine = bool(job.get("fine"))
    n = job["n"]
    ids = ["t#%d" % i for i in range(n)]
    oracle = {"reports": {i: [OUTCOMES[x] for x in r] for i, r in enumerate(job["reports"])},
              "stops": set(job["stops"]), "coll_reports": [tuple(x) for x in job["coll"]]}
    w = WorkerSim(sched, "gw0", ids, oracle)
    events = []

    def obs():
        while w.upwire:
            events.append(w.event_obs(w.upwire.popleft()))
        return [w.queue_obs(), int(w.inter.torun._has_items_event.flag),
                [[i, [] if j is None else [j]] for i, j in w.ran], list(events), int(w.exited)]

    trace = []
    try:
        for op in job["ops"]:
            if op == "r":
                w.recv_step()
            elif op == "m":
                if job.get("fine"):
                    w.main_micro()
                else:
                    w.main_step()
            else:
                w.deliver(to_real_cmd(op[1]))
            if job.get("trace"):
                trace.append(obs())
        if job.get("fine"):
            # fair drain: both threads get every chance; then: is the worker asleep although it has something to do?
            for _ in range(40 * (job["n"] + 4)):
                a = w.recv.runnable() and not w.dead
                if a:
                    w.recv_step()
                b = w.main_micro()
                if not a and not b:
                    break
            fin = obs()
            asleep = (not w.exited) and (not w.dead) and not w.main.runnable() and not w.recv.runnable()
            trace.append(fin)
            trace.append({"asleep": int(asleep), "queue": fin[0], "flag": fin[1]})
        result = trace if job.get("trace") else obs()
    except BaseException as e:  # noqa: BLE001
        import traceback
        tb = traceback.extract_tb(e.__traceback__)
        result = ["exc", type(e).__name__, str(e)[:100], [f"{t.filename.split('/')[-1]}:{t.name}" for t in tb][-3:]]
    sched.dispose()
    return result


def main():
    for line in sys.stdin:
        job = json.loads(line)
        sys.stdout.write(json.dumps(run_case(job)) + "\n")
        sys.stdout.flush()


if __name__ == "__main__":
    main()
