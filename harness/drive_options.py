"""Implementation-side driver for C13: runs the REAL option handling of /repo
(pytest's _prepareconfig with the xdist plugins loaded, then the xdist
pytest_cmdline_main hook implementations in pluggy order, then pytest_configure)
and prints one JSON observation per input line."""
from __future__ import annotations

import io
import json
import os
import sys
import contextlib
import warnings


def observe_options(case: dict) -> list:
    """case: {args: [...], env: str|None, worker: bool}"""
    import pytest
    from _pytest.config import _prepareconfig
    import xdist.plugin, xdist.looponfail, xdist.remote

    old_env = os.environ.get("PYTEST_XDIST_AUTO_NUM_WORKERS")
    if case.get("addopts"):
        os.environ["PYTEST_ADDOPTS"] = case["addopts"]
    else:
        os.environ.pop("PYTEST_ADDOPTS", None)
    if case.get("env") is None:
        os.environ.pop("PYTEST_XDIST_AUTO_NUM_WORKERS", None)
    else:
        os.environ["PYTEST_XDIST_AUTO_NUM_WORKERS"] = case["env"]
    loop = []
    orig_loop = xdist.looponfail.looponfail_main
    xdist.looponfail.looponfail_main = lambda config: loop.append(1)
    cwd = os.getcwd()
    try:
        with contextlib.redirect_stderr(io.StringIO()), contextlib.redirect_stdout(io.StringIO()), warnings.catch_warnings():
            warnings.simplefilter("ignore")
            try:
                config = _prepareconfig(list(case["args"]) + ["-p", "no:cacheprovider"], None)
            except (pytest.UsageError, SystemExit) as e:
                return ["parse-error", type(e).__name__]
            modes = ["no", "each", "load", "loadscope", "loadfile", "loadgroup", "worksteal"]

            def snap():
                opt = config.option
                np = opt.numprocesses
                np_sx = [] if np is None else (np if isinstance(np, str) else [int(np)])
                mp = opt.maxprocesses
                return [np_sx, [] if mp is None else [int(mp)], modes.index(opt.dist), int(bool(opt.distload)),
                        list(opt.tx), int(bool(opt.usepdb)), int(bool(opt.collectonly)), int(bool(opt.looponfail))]
            pre = snap()
            try:
                if case.get("worker"):
                    xdist.remote.setup_config(config, None)
                impls = [h for h in config.hook.pytest_cmdline_main.get_hookimpls()
                         if h.plugin_name in ("xdist", "xdist.looponfail", "xdist.plugin")]
                # pluggy calls the list in reverse order
                result = None
                for h in reversed(impls):
                    try:
                        r = h.function(config=config)
                    except pytest.UsageError:
                        return [pre, ["err", "UsageError"]]
                    if r is not None:
                        result = r
                        break
                if loop:
                    return [pre, ["looponfail", "loop"]]
                opt = config.option
                dist_is = bool(xdist.plugin._is_distribution_mode(config))
                try:
                    config._do_configure()
                    installed = config.pluginmanager.getplugin("dsession") is not None
                finally:
                    with contextlib.suppress(Exception):
                        config._ensure_unconfigure()
                return [pre, ["ok", snap() + [int(bool(getattr(opt, "loadgroup", False)))],
                              int(installed), int(dist_is)]]
            finally:
                with contextlib.suppress(Exception):
                    config._ensure_unconfigure()
    finally:
        xdist.looponfail.looponfail_main = orig_loop
        os.chdir(cwd)
        if old_env is None:
            os.environ.pop("PYTEST_XDIST_AUTO_NUM_WORKERS", None)
        else:
            os.environ["PYTEST_XDIST_AUTO_NUM_WORKERS"] = old_env


def observe_parse_tx(txs: list) -> list:
    import pytest, types
    from xdist.workermanage import parse_tx_spec_config
    cfg = types.SimpleNamespace(getvalue=lambda k: list(txs))
    try:
        return list(parse_tx_spec_config(cfg))
    except pytest.UsageError:
        return ["err", "UsageError"]


def observe_py_int(s: str) -> list:
    try:
        return [int(s)]
    except ValueError:
        return []


def observe_auto_default(env, cpu) -> int:
    import types
    import xdist.plugin as P
    old = os.environ.get("PYTEST_XDIST_AUTO_NUM_WORKERS")
    if env is None:
        os.environ.pop("PYTEST_XDIST_AUTO_NUM_WORKERS", None)
    else:
        os.environ["PYTEST_XDIST_AUTO_NUM_WORKERS"] = env
    orig = os.sched_getaffinity
    os.sched_getaffinity = lambda pid: set(range(cpu or 0))
    try:
        with warnings.catch_warnings():
            warnings.simplefilter("ignore")
            cfg = types.SimpleNamespace(option=types.SimpleNamespace(numprocesses="auto"))
            return int(P.pytest_xdist_auto_num_workers(cfg))
    finally:
        os.sched_getaffinity = orig
        if old is None:
            os.environ.pop("PYTEST_XDIST_AUTO_NUM_WORKERS", None)
        else:
            os.environ["PYTEST_XDIST_AUTO_NUM_WORKERS"] = old


def real_auto() -> int:
    import types
    import xdist.plugin as P
    cfg = types.SimpleNamespace(option=types.SimpleNamespace(numprocesses="auto"))
    return int(P.pytest_xdist_auto_num_workers(cfg))


def main():
    os.chdir(os.environ.get("VERIF_TMP", "/tmp"))
    for line in sys.stdin:
        job = json.loads(line)
        k = job["kind"]
        try:
            if k == "options":
                r = observe_options(job["case"])
            elif k == "parse_tx":
                r = observe_parse_tx(job["case"])
            elif k == "py_int":
                r = observe_py_int(job["case"])
            elif k == "auto_default":
                r = observe_auto_default(*job["case"])
            elif k == "real_auto":
                r = real_auto()
            else:
                r = ["unknown-kind"]
        except BaseException as e:  # the observation is the exception class
            r = ["exc", type(e).__name__, str(e)[:200]]
        sys.stdout.write(json.dumps(r) + "\n")
        sys.stdout.flush()


if __name__ == "__main__":
    main()
