"""Real `pytest -n...` subprocess runs for the glue no model contains (C04, C12, C13):
pytest's report (de)serialisation, terminal tallies, exit status, environment variables,
fixtures, temporary directories."""
from __future__ import annotations

import json
import os
import re
import shutil
import subprocess
import sys
import tempfile
import textwrap

import common

CONFTEST = '''
import json, os
import pytest

LOG = os.environ["VERIF_E2E_LOG"]

def _w(rec):
    with open(LOG, "a") as f:
        f.write(json.dumps(rec) + "\\n")

if os.environ.get("VERIF_E2E_PROBE"):
    # what code running at conftest IMPORT time (command-line parsing in the worker) sees
    _w({"ev": "import_probe", "env_worker": os.environ.get("PYTEST_XDIST_WORKER"), "env_count": os.environ.get("PYTEST_XDIST_WORKER_COUNT"),
        "env_uid": os.environ.get("PYTEST_XDIST_TESTRUNUID"), "pid": os.getpid()})

def pytest_runtest_logreport(report):
    if not hasattr(report, "node") and os.environ.get("PYTEST_XDIST_WORKER"):
        return            # worker side
    sections = sorted((k, v) for k, v in getattr(report, "sections", []))
    _w({"ev": "report", "nodeid": report.nodeid, "when": report.when, "outcome": report.outcome,
        "worker": getattr(getattr(report, "node", None), "gateway", None) and report.node.gateway.id,
        "worker_id_attr": getattr(report, "worker_id", None),
        "longrepr": str(report.longrepr)[:200] if report.longrepr else None,
        "props": list(map(list, getattr(report, "user_properties", []))), "sections": sections,
        "wasxfail": getattr(report, "wasxfail", None)})

def pytest_collectreport(report):
    if os.environ.get("PYTEST_XDIST_WORKER"):
        return
    if report.failed or report.skipped:
        _w({"ev": "collectreport", "nodeid": report.nodeid, "outcome": report.outcome, "longrepr": str(report.longrepr)[:120]})

@pytest.fixture(autouse=True)
def _probe(request, worker_id, testrun_uid, tmp_path_factory):
    if os.environ.get("VERIF_E2E_PROBE"):
        _w({"ev": "probe", "nodeid": request.node.nodeid, "env_worker": os.environ.get("PYTEST_XDIST_WORKER"),
            "env_count": os.environ.get("PYTEST_XDIST_WORKER_COUNT"), "env_uid": os.environ.get("PYTEST_XDIST_TESTRUNUID"),
            "worker_id": worker_id, "testrun_uid": testrun_uid, "basetemp": str(tmp_path_factory.getbasetemp()), "pid": os.getpid()})
    yield
'''


def run_pytest(proj, args, env_extra=None, timeout=180):
    log = os.path.join(proj, "e2e.log")
    if os.path.exists(log):
        os.unlink(log)
    env = common.env_for_repo()
    env["PYTHONPATH"] = os.path.join(common.REPO, "src")
    env["VERIF_E2E_LOG"] = log
    env.update(env_extra or {})
    try:
        p = subprocess.run([common.PY, "-m", "pytest", "-p", "no:cacheprovider", "-p", "no:randomly", "--basetemp", os.path.join(proj, "bt")]
                           + args, cwd=proj, env=env, stdout=subprocess.PIPE, stderr=subprocess.STDOUT, text=True, timeout=timeout)
        out, rc = p.stdout, p.returncode
    except subprocess.TimeoutExpired as e:
        out, rc = (e.stdout or b"").decode(errors="replace") if isinstance(e.stdout, bytes) else (e.stdout or ""), "timeout"
    recs = []
    if os.path.exists(log):
        for l in open(log):
            try:
                recs.append(json.loads(l))
            except Exception:
                pass
    shutil.rmtree(os.path.join(proj, "bt"), ignore_errors=True)
    return rc, out, recs


def tallies(out):
    m = re.findall(r"(\d+) (passed|failed|skipped|xfailed|xpassed|errors?|warnings?)", out.strip().split("\n")[-1] if out.strip() else "")
    d = {}
    for n, k in m:
        k = "error" if k.startswith("error") else "warning" if k.startswith("warning") else k
        d[k] = int(n)
    d.pop("warning", None)
    return d


def make_suite(rnd, proj, with_collect_error=False):
    """a generated order-independent suite; returns the list of files"""
    files = {}
    nfiles = rnd.randint(1, 3)
    for f in range(nfiles):
        body = ["import pytest", "import sys", ""]
        for t in range(rnd.randint(1, 5)):
            kind = rnd.choice(["pass", "pass", "fail", "skip", "xfail", "xpass", "setuperr", "teardownerr", "param", "output", "prop", "cls"])
            name = f"test_{kind}_{f}_{t}"
            if kind == "pass":
                body += [f"def {name}():", "    assert True", ""]
            elif kind == "fail":
                body += [f"def {name}():", f"    assert 1 == {rnd.randint(2, 9)}, 'boom {t}'", ""]
            elif kind == "skip":
                body += [f"def {name}():", "    pytest.skip('not today')", ""]
            elif kind == "xfail":
                body += ["@pytest.mark.xfail(reason='known')", f"def {name}():", "    assert False", ""]
            elif kind == "xpass":
                body += ["@pytest.mark.xfail(reason='surprise')", f"def {name}():", "    assert True", ""]
            elif kind == "setuperr":
                body += [f"@pytest.fixture", f"def fx_{f}_{t}():", "    raise RuntimeError('setup broke')", f"def {name}(fx_{f}_{t}):", "    pass", ""]
            elif kind == "teardownerr":
                body += [f"@pytest.fixture", f"def fy_{f}_{t}():", "    yield 1", "    raise RuntimeError('teardown broke')",
                         f"def {name}(fy_{f}_{t}):", "    pass", ""]
            elif kind == "param":
                body += ["@pytest.mark.parametrize('v', [1, 2, 'a::b', 'x@y'])", f"def {name}(v):", "    assert v != 2", ""]
            elif kind == "output":
                body += [f"def {name}():", f"    print('hello out {t}')", f"    print('hello err {t}', file=sys.stderr)", "    assert False", ""]
            elif kind == "prop":
                body += [f"def {name}(record_property):", f"    record_property('k{t}', {t})", ""]
            elif kind == "cls":
                body += [f"class TestC{f}{t}:", "    def test_m1(self):", "        pass", "    def test_m2(self):", "        assert 0", ""]
        files[f"test_f{f}.py"] = "\n".join(body)
    if with_collect_error:
        files["test_broken.py"] = "import pytest\nassert 1 == 2, 'collection blows up'\n\ndef test_never():\n    pass\n"
        if True:
            # DIFFERENT modules failing at the SAME place (a shared helper called at import time): still one report per module
            files["helper_cfg.py"] = "def load():\n    raise RuntimeError('bad config')\n"
            for nm in ("test_cfg_a.py", "test_cfg_b.py"):
                files[nm] = "import helper_cfg\nCFG = helper_cfg.load()\n\ndef test_x():\n    pass\n"
        # the SAME error rendered differently in every worker process (the text embeds the worker id / the process id / an address)
        files["test_envcfg.py"] = ("import os\nclass Cfg:\n    pass\nCFG = Cfg()\n"
                                   "assert not (CFG, os.getpid(), os.environ.get('PYTEST_XDIST_WORKER')), 'needs configuration'\n\ndef test_y():\n    pass\n")
        if rnd.random() < 0.4:
            files["test_skipmod.py"] = "import pytest\npytest.skip('whole module', allow_module_level=True)\n"
    for fn, src in files.items():
        open(os.path.join(proj, fn), "w").write(src)
    open(os.path.join(proj, "conftest.py"), "w").write(CONFTEST)
    return sorted(files)


def canon_reports(recs):
    """multiset of (nodeid, when, outcome, props, sections-without-worker-noise)"""
    out = []
    for r in recs:
        if r["ev"] == "report":
            out.append((r["nodeid"], r["when"], r["outcome"], json.dumps(r["props"]), json.dumps(r["sections"]),
                        re.sub(r"0x[0-9a-fA-F]+", "0xADDR", (r["longrepr"] or ""))[:60] if r["outcome"] != "passed" else "", r["wasxfail"]))
    return sorted(out, key=str)


def new_project():
    return tempfile.mkdtemp(prefix="e2e-", dir=common.BUILD if os.path.isdir(common.BUILD) else None)
