"""Deterministic single-process simulation of a whole distributed session built from the
REAL DSession, scheduler classes, WorkerController (controller side) and WorkerInteractor +
TestQueue (worker side, via wsim.WorkerSim). execnet and test execution are faked.
A schedule is a list of labels, the same type as Model/System.v's [label]."""
from __future__ import annotations

import contextlib
import io

import collections
import re
import types

import queue as _queue

from coop import Coop, Sched
from wsim import OUTCOMES, FakePM, WorkerSim


class CoopQueue:
    """stands for DSession.queue: get() is a yield point of the controller's main thread, so that
    the REAL pytest_runtestloop / loop_once run, one event per simulator step; an empty queue with
    no active node left behaves like the 2 s timeout (queue.Empty)"""

    def __init__(self, sim):
        self.sim = sim
        self.items = collections.deque()

    def put(self, item):
        self.items.append(item)

    def get(self, timeout=None):
        c = self.sim.sched.current
        ds = self.sim.ds
        if c is not None:
            c.yield_(blocked_on=lambda: bool(self.items) or not ds._active_nodes)
        if self.items:
            return self.items.popleft()
        raise _queue.Empty

    def empty(self):
        return not self.items

    def qsize(self):
        return len(self.items)

    @property
    def queue(self):
        return self.items

EXC_NAMES = {"KeyError", "ValueError", "AssertionError", "OSError", "NotImplementedError",
             "ZeroDivisionError", "IndexError", "TypeError", "RuntimeError"}


class Log:
    """stands for the Producer handed to schedulers; collection-difference messages are
    recorded in order as 'logdiff' outputs (dropped again if a CollectReport follows)"""

    def __init__(self, owner):
        self.owner = owner

    def __getattr__(self, n):
        return self

    def __call__(self, *a):
        msg = " ".join(str(x) for x in a)
        m = re.search(r"collected between (\S+) and (\S+)\.", msg)
        if m:
            self.owner.outs.append(["logdiff", int(m.group(1)[2:]), int(m.group(2)[2:])])


class Spec:
    """stands for an execnet XSpec: equality by spec class, mutable id like the real one"""

    def __init__(self, cls):
        self.cls = cls
        self.id = None
        self.popen = True
        self.chdir = None

    def __eq__(self, o):
        return isinstance(o, Spec) and o.cls == self.cls

    def __hash__(self):
        return hash(self.cls)


class CtlChannel:
    def __init__(self, sim, n):
        self.sim, self.n = sim, n

    def send(self, obj):
        sim = self.sim
        w = sim.workers[self.n]
        name, kw = obj
        # the channel of a dead worker is closed for sending once the receiver thread has handled something of it after its
        # death while the node is marked down (the model's close_if_dead), or at once when channel failure is strict
        if w.dead and (self.n in sim.closed or sim.cfg["strict"]):
            raise OSError("cannot send to closed channel")
        if name == "runtests":
            c = ["run", [int(x) for x in kw["indices"]]]
        elif name == "runtests_all":
            c = ["runall"]
        elif name == "steal":
            c = ["steal", [int(x) for x in kw["indices"]]]
        else:
            c = [name]
        sim.outs.append(["send", self.n, c])
        sim.sent.setdefault(self.n, []).append(c)
        if not w.dead:
            import copy
            sim.down[self.n].append(copy.deepcopy(obj))     # execnet serialises at send time

    def _getremoteerror(self):
        return None

    def isclosed(self):
        return False


class Sim:
    def __init__(self, cfg):
        """cfg: dict(mode, numnodes, chunk, maxfail, max_restart, requeue, strict, coll, overrides{n:coll},
        reports[[..]], stops[..], crashers[[n,i]..], durs[..], specs[..], collreports{n:[[k,f]..]})"""
        import xdist.dsession as dsession
        from xdist.workermanage import WorkerController
        self.WorkerController = WorkerController
        cfg = dict(cfg)
        cfg["overrides"] = {int(k): v for k, v in (cfg.get("overrides") or {}).items()}     # JSON keys are strings
        cfg["collreports"] = {int(k): v for k, v in (cfg.get("collreports") or {}).items()}
        self.cfg = cfg
        self.sched = Sched()
        self.outs = []
        self.logs = []
        self.collect_msgs = []
        self.sent = {}
        self.nodes = {}
        self.workers = {}
        self.down = {}
        self.result = None
        self.cur_node = None
        self.requeue = cfg["requeue"]
        self.hooklog = []
        self.ctl_events = {}
        self.stepno = 0
        self.crash_info = {}
        self.closed = set()
        sim = self
        mode = cfg["mode"]

        class Hook:
            def __getattr__(self, name):
                def call(**kw):
                    return sim.hookcall(name, kw)
                call.call_historic = lambda kwargs: sim.hookcall(name, kwargs)
                return call
        nn = cfg["numnodes"]
        mr = cfg["max_restart"]
        self.config = types.SimpleNamespace(
            option=types.SimpleNamespace(debug=False, verbose=0, dist=mode,
                                         maxworkerrestart=None if mr is None else str(mr), numprocesses=None),
            hook=Hook(), pluginmanager=FakePM())
        vals = {"tx": ["popen"] * nn, "maxschedchunk": cfg["chunk"], "dist": mode, "maxfail": cfg["maxfail"],
                "loadgroup": mode == "loadgroup", "testrunuid": "uid"}
        self.config.getvalue = lambda k: vals[k]
        self.config.getoption = lambda k, d=None: vals.get(k, d)
        self.config.notify_exception = lambda e: None
        ds = self.ds = dsession.DSession(self.config)
        ds.log = Log(self)
        ds.queue = CoopQueue(self)
        ds._session = types.SimpleNamespace(testscollected=0)
        self.Interrupted = dsession.Interrupted

        def report_line(line):
            if line.startswith("\nworker ") and "restarting disabled" in line:
                sim.outs.append(["summary", 1])
            elif line.startswith("\nmaximum crashed workers"):
                sim.outs.append(["summary", 0])
        ds.report_line = report_line
        self.counter = 0
        self.nm = types.SimpleNamespace(specs=[None] * nn, testrunuid="uid", setup_node=self.setup_node,
                                        group=types.SimpleNamespace(allocate_id=self.allocate_id))
        ds.nodemanager = self.nm
        specs = cfg.get("specs") or []
        for i in range(nn):
            sp = Spec(specs[i] if i < len(specs) else 0)
            self.allocate_id(sp)
            ds._active_nodes.add(self.setup_node(sp, ds.queue.put, initial=True))
        # the controller's main thread runs the REAL pytest_runtestloop; prime it up to its first queue.get
        self.ctl = Coop(self.sched, "controller", self._runtestloop)
        self.ctl_ret = None
        self.ctl.resume()

    def _runtestloop(self):
        self.ctl_ret = self.ds.pytest_runtestloop()

    # ---- node manager fakes
    def allocate_id(self, spec):
        if spec.id is None:
            spec.id = "gw%d" % self.counter
            self.counter += 1

    def setup_node(self, spec, putevent, initial=False):
        n = int(spec.id[2:])
        gw = types.SimpleNamespace(id=spec.id, spec=spec)
        node = self.WorkerController(self.nm, gw, self.config, putevent)
        node.channel = CtlChannel(self, n)
        self.nodes[n] = node
        cfg = self.cfg
        ids = cfg["overrides"].get(n, cfg["coll"]) if cfg.get("overrides") else cfg["coll"]
        oracle = {"reports": {i: [OUTCOMES[x] for x in r] for i, r in enumerate(cfg["reports"])},
                  "stops": set(cfg["stops"]), "crash": {i for m, i in cfg["crashers"] if m == n},
                  "coll_reports": [tuple(x) for x in (cfg.get("collreports") or {}).get(n, [])]}
        w = WorkerSim(self.sched, spec.id, ids, oracle, loadgroup=cfg["mode"] == "loadgroup")
        w.dur_ms = {i: d for i, d in enumerate(cfg["durs"])}
        w.n = n
        self.workers[n] = w
        self.down[n] = collections.deque()
        if not initial:
            self.outs.append(["spawn", n, spec.cls])
        return node

    # ---- controller hooks
    def hookcall(self, name, kw):
        o = self.outs
        nid = lambda node: int(node.gateway.id[2:])
        if name == "pytest_xdist_make_scheduler":
            return self.ds.pytest_xdist_make_scheduler(config=kw["config"], log=kw["log"])
        if name == "pytest_report_from_serializable":
            if getattr(kw["data"]["rep"], "outcome", None) == "garbled":
                raise ValueError("cannot rebuild the report")     # e.g. a plugin's report type the controller does not know
            ns = types.SimpleNamespace(**vars(kw["data"]["rep"]))
            if "item_index" in kw["data"]:
                ns.item_index = kw["data"]["item_index"]
            return ns
        if name == "pytest_testnodeready":
            o.append(["nodeready", nid(kw["node"])])
        elif name == "pytest_testnodedown":
            o.append(["nodedown", nid(kw["node"]), int(bool(kw["error"]))])
        elif name == "pytest_xdist_node_collection_finished":
            o.append(["collfinished", nid(kw["node"])])
        elif name in ("pytest_runtest_logstart", "pytest_runtest_logfinish"):
            o.append(["h_logstart" if name.endswith("start") else "h_logfinish", self.cur_node, self.cur_index])
        elif name == "pytest_runtest_logreport":
            r = kw["report"]
            if getattr(r, "when", None) == "???":
                o.append(["h_crashreport", r.nodeid, nid(r.node)])
            else:
                o.append(["h_report", nid(r.node), r.item_index, r.k, OUTCOMES.index(r.outcome)])
        elif name == "pytest_handlecrashitem":
            o.append(["h_crashitem", kw["crashitem"], nid(kw["report"].node)])
            if self.requeue > 0:
                self.requeue -= 1
                kw["sched"].mark_test_pending(kw["crashitem"])
        elif name == "pytest_collectreport":
            r = kw["report"]
            if hasattr(r, "key"):
                o.append(["h_collectreport", r.key, int(bool(r.failed))])
            else:
                m = re.search(r"collected between (\S+) and (\S+)\.", str(r.longrepr))
                pair = [int(m.group(1)[2:]), int(r.nodeid[2:])]
                if o and o[-1] == ["logdiff"] + pair:
                    o.pop()
                o.append(["colldiff"] + pair)
        elif name == "pytest_internalerror":
            o.append(["h_internalerror", self.cur_node])
        elif name == "pytest_warning_recorded":
            o.append(["h_warning"])
        self.hooklog.append(o[-1] if o else None)
        return None

    # ---- steps
    def view(self):
        ds = self.ds
        return [[int(x.gateway.id[2:]) for x in ds.sched.nodes], int(bool(ds.shuttingdown)), int(bool(ds.shouldstop)),
                sorted(int(x.gateway.id[2:]) for x in ds._active_nodes), ds.queue.qsize(),
                [] if self.result is None else self.result]

    def step(self, label):
        self.stepno += 1
        if self.result is not None:
            return ["disabled"]
        self.outs = []
        self.logs.clear()
        self.collect_msgs = []
        wevs = []
        k = label[0]
        n = label[1] if len(label) > 1 else None
        w = self.workers.get(n)
        summary_before = self.ds._summary_report
        if k == "deliver":
            if w is None or w.dead or not self.down[n]:
                return ["disabled"]
            obj = self.down[n].popleft()
            w.deliver(obj)
        elif k == "recvw":
            if w is None or w.dead or w.chan.cb is None:
                return ["disabled"]
            w.recv_step()
            wevs = self.collect_events(n, w)
        elif k == "main":
            if w is None or w.dead:
                return ["disabled"]
            progressed = w.main_step()
            if w.dead:          # died inside the test it just entered
                self.after_crash(n, w)
                return [[], [], self.view()]
            if not progressed:
                return ["disabled"]
            wevs = self.collect_events(n, w)
        elif k == "crash":
            if w is None or w.dead or w.exited:
                return ["disabled"]
            w.crash()
            self.after_crash(n, w)
        elif k == "recv":
            if w is None or not w.upwire:
                return ["disabled"]
            ev = w.upwire.popleft()
            try:
                with contextlib.redirect_stdout(io.StringIO()):       # the undecodable-message path prints
                    self.nodes[n].process_from_remote(self.END if ev == "END" else ev)
            except BaseException as e:  # noqa: BLE001
                self.result = ["error", self.excname(e)]
            if w.dead and self.nodes[n]._down:
                self.closed.add(n)
        elif k == "ctl":
            ds = self.ds
            if ds._active_nodes and ds.queue.empty():
                return ["disabled"]
            if not ds.queue.empty():
                ev = ds.queue.queue[0]
                node = ev[1].get("node")
                self.cur_node = int(node.gateway.id[2:]) if node is not None else None
                self.cur_index = None
                extra = ev[1].get("item_index", ev[1].get("indices"))
                self.ctl_events[self.stepno - 1] = [ev[0], self.cur_node, list(extra) if isinstance(extra, (list, tuple)) else extra]
                if ev[0] in ("logstart", "logfinish"):
                    self.cur_index = self.workers[self.cur_node].ids.index(ev[1]["nodeid"]) \
                        if self.workers[self.cur_node].ids.count(ev[1]["nodeid"]) == 1 else ev[1].get("_idx")
            self.ctl.resume()
            if self.ctl.finished:
                e = self.ctl.exc
                if e is None:
                    self.result = ["finished"]
                elif isinstance(e, self.Interrupted):
                    self.result = ["interrupted"]
                else:
                    self.result = ["error", self.excname(e)]
                    self.exc = e
        else:
            raise ValueError(label)
        outs = list(self.outs)
        return [outs, wevs, self.view()]

    @property
    def END(self):
        from xdist.workermanage import Marker
        return Marker.END

    @staticmethod
    def excname(e):
        name = type(e).__name__
        return name if name in EXC_NAMES else "Exception"

    def after_crash(self, n, w):
        info = dict(w.crash_state or {})
        if info.get("running") is None and info.get("pending_first") is None:
            # commands still in flight to the worker when it died
            for obj in self.down[n]:
                if obj[0] == "shutdown":
                    break
                if obj[0] == "runtests" and obj[1]["indices"]:
                    info["pending_first"] = int(obj[1]["indices"][0])
                    break
                if obj[0] == "runtests_all" and w.ids:
                    info["pending_first"] = 0
                    break
        info["step"] = self.stepno - 1
        self.crash_info[n] = info
        self.down[n].clear()

    def collect_events(self, n, w):
        """worker events sent during this step (they stay on the up-wire)"""
        new = w.sent_log[getattr(w, "_seen", 0):]
        w._seen = len(w.sent_log)
        return [[n, w.event_obs(ev)] for ev in new]

    def enabled(self):
        """labels that are (probably) enabled; used by generators"""
        acts = []
        if self.result is not None:
            return acts
        for n, w in self.workers.items():
            if w.upwire:
                acts.append(["recv", n])
            if not w.dead:
                if self.down[n]:
                    acts.append(["deliver", n])
                if w.chan.cb is not None and (w.inbox or w.recv.started and w.recv.runnable()):
                    acts.append(["recvw", n])
                if w.main.runnable():
                    acts.append(["main", n])
        if not self.ds.queue.empty() or not self.ds._active_nodes:
            acts.append(["ctl"])
        return acts

    def dispose(self):
        self.sched.dispose()
