import sys, json, collections
sys.path.insert(0, '/verif/harness')
import common
profile = sys.argv[1]; n = int(sys.argv[2]); base = int(sys.argv[3]) if len(sys.argv) > 3 else 0
jobs = [{"kind": "online", "seed": base + i, "profile": profile, "ext_crash_p": 0.0 if profile == "nocrash" else 0.01} for i in range(n)]
res = common.run_jobs("drive_sim.py", jobs, nproc=14)
m = common.Model()
good = [r for r in res if isinstance(r, dict)]
for r in res:
    if not isinstance(r, dict): print("DRIVER", str(r)[:1500])
outs = m.batch("system", [[r["wire"], r["labels"]] for r in good])
bad = collections.Counter(); shown = 0; results = collections.Counter(); nsteps = 0

def canon_model(step):
    if step == ["disabled"]: return step
    o, w, v = step
    v = list(v); v[3] = sorted(v[3])
    return [o, w, v]

for j, (r, mo) in enumerate(zip(good, outs)):
    nsteps += len(r["labels"])
    results[(r["cfg"]["mode"], str(r["summary"]["result"]), "STUCK" if r["stuck"] else "")] += 1
    if mo == ["bad-input"]:
        print("BAD INPUT", r["wire"]); continue
    for k, (a, b) in enumerate(zip(r["obs"], mo)):
        b = canon_model(b)
        if a != b:
            bad[(r["cfg"]["mode"], r["labels"][k][0])] += 1
            if shown < 4:
                shown += 1
                print("MISMATCH seed", jobs[j]["seed"], r["cfg"]["mode"], "step", k, "label", r["labels"][k])
                print("  cfg:", {k2: v for k2, v in r["cfg"].items() if k2 not in ("reports", "durs")})
                print("  last labels:", r["labels"][max(0, k - 8):k + 1])
                print("  impl :", a); print("  model:", b)
            break
print("cases", len(good), "steps", nsteps, "mismatch", dict(bad))
for k, v in sorted(results.items()): print(v, k)
