"""One simulated worker process built from the REAL xdist.remote.WorkerInteractor and
TestQueue: its main line runs in a cooperative thread, its execnet receiver in another.
Used by drive_worker.py (worker-level correspondence) and sim.py (whole sessions)."""
from __future__ import annotations

import itertools
import collections
import types

from coop import Coop, ExecModel, Killed, Sched

OUTCOMES = ["passed", "failed", "skipped", "garbled"]    # garbled: the controller cannot rebuild the report

_BY_COOP = {}


_PROC = itertools.count(1000)   # the text of a collection error differs from worker to worker (pids, addresses, worker ids in reprs)

class TimeShim:
    """replaces the `time` module inside xdist.remote: run_one_test's two perf_counter()
    calls return 0.0 and the scripted duration of the running test"""

    def __init__(self, real):
        self._real = real

    def perf_counter(self):
        for sched in list(_BY_COOP):
            c = sched.current
            if c is not None and c in _BY_COOP[sched]:
                return _BY_COOP[sched][c].perf_counter()
        return self._real.perf_counter()

    def __getattr__(self, n):
        return getattr(self._real, n)


class FakePM:
    def getplugin(self, n):
        return None

    def register(self, *a, **k):
        pass


class Item:
    def __init__(self, nodeid):
        self.nodeid = nodeid


class FakeSession:
    # pytest.Session's own exception classes (raised out of a runtestloop to end the session)
    class Failed(Exception):
        pass

    class Interrupted(KeyboardInterrupt):
        pass

    def __init__(self, ids):
        self.items = [Item(i) for i in ids]
        self.shouldfail = False
        self.shouldstop = False
        self.testscollected = 0


class WkChannel:
    """worker end of the channel: send() appends to the up-wire; the worker's main
    thread yields after every send (receiver-thread sends do not yield)"""

    def __init__(self, w):
        self.w = w
        self.gateway = types.SimpleNamespace(execmodel=ExecModel(w.sched))
        self.cb = None

    def send(self, obj):
        self.w.upwire.append(obj)
        self.w.sent_index[id(obj)] = getattr(self.w.inter, "item_index", None)
        self.w.sent_log.append(obj)
        if obj[0] == "runtest_protocol_complete":
            self.w.completed.append(obj[1]["item_index"])
        if obj[0] == "workerfinished":
            self.w.exited = True       # nothing observable happens in the worker after this send
        self.w.on_send(obj)
        c = self.w.sched.current
        if c is not None and c is self.w.main:
            c.progress += 1
            c.yield_()

    def setcallback(self, cb, endmarker=None):
        self.cb = cb
        self.endmarker = endmarker


class WorkerSim:
    def __init__(self, sched: Sched, wid: str, ids, oracle, on_send=lambda obj: None, loadgroup=False):
        """oracle: dict(reports={index: [outcome,...]}, stops=set(indices), crash=set(indices) ,
        coll_reports=[(key, failed)])"""
        import xdist.remote as remote
        self.remote = remote
        self.sched, self.wid, self.ids, self.oracle = sched, wid, list(ids), oracle
        self.on_send = on_send
        self.upwire = collections.deque()      # events sent, not yet received by the controller side
        self.inbox = collections.deque()       # commands delivered by execnet, not yet handled
        self.ran = []                          # (index, next index or None) as passed to the protocol
        self.completed = []                    # indices whose runtest_protocol_complete was sent
        self.popped = []                       # entries the main thread took from the queue, in order
        self.crash_state = None                # filled in when the worker dies
        self.sent_index = {}                   # id(event) -> item_index at send time
        self.sent_log = []                     # keeps the event objects alive (ids stay unique)
        self.dur_ms = {}                       # index -> reported duration in ms
        self._clock_calls = 0
        self.dead = False
        self.exited = False
        self.on_crash = None
        cfg = types.SimpleNamespace(
            workerinput={"workerid": wid, "testrunuid": "uid", "workercount": 1, "mainargv": ["pytest"]},
            option=types.SimpleNamespace(debug=False), pluginmanager=FakePM(), workeroutput={}, rootpath="/r")
        cfg.hook = types.SimpleNamespace(
            pytest_runtest_protocol=self._protocol,
            pytest_report_to_serializable=lambda config, report: {"rep": report})
        cfg.getvalue = lambda k: loadgroup if k == "loadgroup" else False
        self.cfg = cfg
        self.chan = WkChannel(self)
        self.inter = remote.WorkerInteractor(cfg, self.chan)
        self.session = FakeSession(self.ids)
        self.main = Coop(sched, "main-" + wid, self._main)
        self.recv = Coop(sched, "recv-" + wid, self._recv)
        if not isinstance(remote.time, TimeShim):
            remote.time = TimeShim(remote.time)
        _BY_COOP.setdefault(sched, {})[self.main] = self

    def perf_counter(self):
        """stand-in for time.perf_counter inside run_one_test: 0.0 before the protocol,
        the scripted duration after it"""
        self._clock_calls += 1
        if self._clock_calls % 2 == 1:
            return 0.0
        return self.dur_ms.get(self.inter.item_index, 0) / 1000.0

    # ---- the stubbed test execution
    def _protocol(self, item, nextitem):
        idx = self.inter.item_index
        nidx = None
        if nextitem is not None:
            nidx = self.inter.nextitem_index
            assert self.session.items[nidx] is nextitem
        assert self.session.items[idx] is item
        self.ran.append((idx, nidx))
        if idx in self.oracle.get("crash", ()):
            self.crash(from_inside=True)
        i = self.inter
        i.pytest_runtest_logstart(nodeid=item.nodeid, location=(item.nodeid, 0, "x"))
        for k, oc in enumerate(self.oracle.get("reports", {}).get(idx, ["passed"])):
            rep = types.SimpleNamespace(nodeid=item.nodeid, when="call", outcome=oc, failed=oc == "failed",
                                        passed=oc == "passed", skipped=oc == "skipped", k=k, longrepr=None)
            i.pytest_runtest_logreport(rep)
        i.pytest_runtest_logfinish(nodeid=item.nodeid, location=(item.nodeid, 0, "x"))
        if idx in self.oracle.get("stops", ()):
            self.session.shouldstop = "stop requested by test %d" % idx

    def _main(self):
        i = self.inter
        i.pytest_sessionstart(self.session)
        i.pytest_collection()
        for key, failed in self.oracle.get("coll_reports", ()):
            # a passed report first: must not be sent
            i.pytest_collectreport(types.SimpleNamespace(passed=True, failed=False, key=-1, longrepr=None))
            i.pytest_collectreport(types.SimpleNamespace(passed=False, failed=bool(failed), skipped=not failed, key=key,
                                                         longrepr="collect-error-%d in process %d" % (key, next(_PROC)), nodeid="coll%d" % key,
                                                         outcome="failed" if failed else "skipped"))
        i.pytest_collection_finish(self.session)
        # what _pytest.main.wrap_session does with the outcome of the loop
        status = 0
        try:
            i.pytest_runtestloop(self.session)
        except self.session.Failed:
            status = 1
        except self.session.Interrupted:
            status = 2
        g = i.pytest_sessionfinish(status)
        next(g)
        try:
            next(g)
        except StopIteration:
            pass
        self.exited = True

    def _recv(self):
        while True:
            c = self.sched.current
            while not self.inbox:
                c.yield_(blocked_on=lambda: bool(self.inbox))
            cmd = self.inbox.popleft()
            if cmd == "END":
                cmd = self.chan.endmarker
            self.chan.cb(cmd)

    # ---- simulator actions
    def deliver(self, cmd):
        self.inbox.append(cmd)

    def recv_step(self):
        if self.dead or self.chan.cb is None or not self.recv.runnable():
            return
        self.recv.resume()
        if self.recv.exc:
            raise self.recv.exc

    def main_enabled(self) -> bool:
        return (not self.dead) and self.main.runnable()

    def main_step(self):
        """advance the main thread until something observable happened (an entry
        taken from the queue, an event sent) or it blocks / exits"""
        if self.dead:
            return False
        while self.main.runnable():
            before = (self.main.progress, len(self.inter.torun._items), self.chan.cb is None)
            head = self.inter.torun._items[0] if self.inter.torun._items else None
            self.main.resume()
            if len(self.inter.torun._items) < before[1]:
                self.popped.append(head)
            if self.main.exc:
                raise self.main.exc
            after = (self.main.progress, len(self.inter.torun._items), self.chan.cb is None)
            if before != after:
                return True
        return False

    def main_micro(self):
        """ONE resumption of the main thread (it parks again at its next full lock release / blocked wait / send):
        finer than main_step, used by the race search only"""
        if self.dead or not self.main.runnable():
            return False
        head = self.inter.torun._items[0] if self.inter.torun._items else None
        n0 = len(self.inter.torun._items)
        self.main.resume()
        if len(self.inter.torun._items) < n0:
            self.popped.append(head)
        if self.main.exc:
            raise self.main.exc
        return True

    def crash(self, from_inside=False):
        if self.dead:
            return
        self.dead = True
        # what the worker was doing when it died (for the crash-report monitors)
        running = None
        if len(self.completed) < len(self.ran):
            running = self.ran[-1][0]
        pend = None
        M = self.remote.Marker.SHUTDOWN
        if running is None and len(self.popped) > len(self.ran) and self.popped[len(self.ran)] is not M:
            pend = int(self.popped[len(self.ran)])     # taken from the queue, protocol not entered yet
        finishing = len(self.popped) > len(self.ran) and self.popped[len(self.ran)] is M
        if finishing or running is not None:
            self.crash_state = {"running": running, "pending_first": None}
            self.inbox.clear()
            self.upwire.append("END")
            self.main.kill = True
            self.recv.kill = True
            if self.on_crash:
                self.on_crash(self)
            if from_inside:
                raise Killed()
            return
        if pend is None:
            for x in self.inter.torun._items:
                if x is not M:
                    pend = int(x)
                    break
                break
        if pend is None:
            for cmd in self.inbox:
                if isinstance(cmd, tuple) and cmd[0] == "shutdown":
                    break
                if isinstance(cmd, tuple) and cmd[0] == "runtests" and cmd[1]["indices"]:
                    pend = int(cmd[1]["indices"][0])
                    break
                if isinstance(cmd, tuple) and cmd[0] == "runtests_all" and self.ids:
                    pend = 0
                    break
        self.crash_state = {"running": running, "pending_first": pend}
        self.inbox.clear()
        self.upwire.append("END")
        self.main.kill = True
        self.recv.kill = True
        if self.on_crash:
            self.on_crash(self)
        if from_inside:
            raise Killed()

    # ---- observation helpers
    def queue_obs(self):
        M = self.remote.Marker.SHUTDOWN
        return ["S" if x is M else int(x) for x in self.inter.torun._items]

    def event_obs(self, ev):
        if ev == "END":
            return ["END"]
        name, kw = ev
        if name == "collectreport":
            r = kw["data"]["rep"]
            return [name, r.key, int(bool(r.failed))]
        if name == "collectionfinish":
            return [name]
        if name in ("logstart", "logfinish"):
            return [name, self.sent_index.get(id(ev))]
        if name == "testreport":
            r = kw["data"]["rep"]
            return [name, kw["data"]["item_index"], r.k, OUTCOMES.index(r.outcome)]
        if name == "runtest_protocol_complete":
            return [name, kw["item_index"]]
        if name == "unscheduled":
            return [name, [int(x) for x in kw["indices"]]]
        if name == "workerfinished":
            wo = kw["workeroutput"]
            if wo.get("exitstatus") == 2:
                return [name, 2]            # the controller takes this for a keyboard interrupt
            return [name, int(bool(wo["shouldfail"] or wo["shouldstop"]))]
        return [name]
