import sys, json, collections
sys.path.insert(0, '/verif/harness')
import common, monitors
profile = sys.argv[1]; n = int(sys.argv[2]); base = int(sys.argv[3]) if len(sys.argv) > 3 else 0
jobs = [{"kind": "online", "seed": base + i, "profile": profile, "ext_crash_p": 0.0 if profile == "nocrash" else 0.01} for i in range(n)]
res = common.run_jobs("drive_sim.py", jobs, nproc=14)
cats = collections.defaultdict(list)
for j, r in zip(jobs, res):
    if not isinstance(r, dict):
        print("DRIVER", str(r)[:800]); continue
    for s, d in monitors.run_monitors(r, list(monitors.ALL)):
        if s["monitor"] == "no_active": continue
        key = tuple(sorted((k, str(v)) for k, v in s.items()))
        cats[key].append((j["seed"], len(r["labels"]), d))
for k, v in sorted(cats.items()):
    seed, steps, d = min(v, key=lambda x: x[1])
    print(len(v), dict(k), "| shortest seed", seed, "steps", steps)
    print("     ", str(d)[:400])
print("total runs", len(res))
