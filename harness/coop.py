"""Cooperative threads: real Python threads of which exactly one runs at a time;
the simulator decides which. Yield points are: a depth-0 exit of an instrumented
lock, a wait on a cleared instrumented event, and whatever the fakes add
(channel sends of a worker's main thread)."""
from __future__ import annotations

import threading


class Killed(BaseException):
    pass


class Sched:
    """holds the currently running cooperative thread"""

    def __init__(self):
        self.current: Coop | None = None
        self.threads: list[Coop] = []
        self.fine = False          # race search: also yield before an event is set/cleared OUTSIDE any instrumented lock

    def dispose(self):
        for t in self.threads:
            t.dispose()
        self.threads.clear()
        try:
            import wsim
            wsim._BY_COOP.pop(self, None)
        except Exception:
            pass


class Coop:
    def __init__(self, sched: Sched, name: str, fn):
        self.sched, self.name, self.fn = sched, name, fn
        self.go = threading.Semaphore(0)
        self.back = threading.Semaphore(0)
        self.finished = False
        self.blocked_on = None
        self.kill = False
        self.exc = None
        self.started = False
        self.progress = 0          # bumped by instrumentation when something observable happened
        self.held = 0              # instrumented locks currently held (entries, re-entrant)
        self.t = threading.Thread(target=self._run, daemon=True, name=name)
        sched.threads.append(self)

    def _run(self):
        self.go.acquire()
        try:
            if not self.kill:
                self.fn()
        except Killed:
            pass
        except BaseException as e:  # noqa: BLE001 - reported by the simulator
            self.exc = e
        self.finished = True
        self.back.release()

    def resume(self):
        assert self.sched.current is None, "nested resume"
        if self.finished:
            return
        if not self.started:
            self.started = True
            self.t.start()
        self.sched.current = self
        self.go.release()
        self.back.acquire()
        self.sched.current = None

    def yield_(self, blocked_on=None):
        self.blocked_on = blocked_on
        self.back.release()
        self.go.acquire()
        self.blocked_on = None
        if self.kill:
            raise Killed()

    def runnable(self) -> bool:
        if self.finished:
            return False
        b = self.blocked_on
        return b is None or bool(b())

    def dispose(self):
        """terminate the underlying thread (if parked)"""
        if self.started and not self.finished:
            self.kill = True
            self.sched.current = self
            self.go.release()
            self.back.acquire()
            self.sched.current = None
        elif not self.started:
            self.kill = True
            self.started = True
            self.t.start()
            self.go.release()
            self.back.acquire()


class IEvent:
    def __init__(self, sched: Sched):
        self.sched = sched
        self.flag = False

    def _unprotected(self):
        c = self.sched.current
        if self.sched.fine and c is not None and c.held == 0:
            c.yield_()             # somebody else may run between the decision and the operation

    def set(self):
        self._unprotected()
        self.flag = True

    def clear(self):
        self._unprotected()
        self.flag = False

    def is_set(self):
        return self.flag

    def wait(self, timeout=None):
        c = self.sched.current
        if c is None:
            assert self.flag, "non-cooperative thread would block"
            return True
        while not self.flag:
            c.yield_(blocked_on=lambda: self.flag)
        return True


class ILock:
    """re-entrant; a cooperative thread yields when it fully releases the lock"""

    def __init__(self, sched: Sched):
        self.sched = sched
        self.depth = 0
        self.owner = None

    def __enter__(self):
        c = self.sched.current
        assert self.owner is None or self.owner is c, "lock held by a parked thread"
        self.owner = c
        self.depth += 1
        if c is not None:
            c.held += 1
        return self

    def __exit__(self, *a):
        self.depth -= 1
        if self.owner is not None:
            self.owner.held -= 1
        if self.depth == 0:
            c = self.owner
            self.owner = None
            if c is not None and c is self.sched.current:
                c.yield_()
        return False

    acquire = __enter__

    def release(self):
        self.__exit__()


class ExecModel:
    def __init__(self, sched: Sched):
        self.sched = sched

    def RLock(self):
        return ILock(self.sched)

    def Event(self):
        return IEvent(self.sched)
