"""C16 — the controller sends each worker a well-formed command stream."""
import common
from props import system_common


def written_off_jobs(rnd, prof, tier):
    """a worker that has been TOLD to shut down but is still registered with tests in its book: the window between an
    undecodable report (shutdown sent by the receiver thread) and the handling of the resulting errordown, while other
    workers' completions are processed first — work-stealing / top-ups must not address the flagged node"""
    if prof != "crash":
        return []
    import random
    import drive_sim
    jobs = []
    for _ in range(60 if tier == "quick" else 1500):
        seed = rnd.randrange(1 << 30)
        r2 = random.Random(seed)
        mode = r2.choice(["worksteal", "worksteal", "load", "loadscope"])
        cfg = drive_sim.make_cfg(r2, {"profile": "crash", "mode": mode})
        k = r2.randint(8, 13)
        ids = ["t.py::t%d" % i for i in range(k)] if mode != "loadscope" else ["f%d.py::t%d" % (i // 3, i) for i in range(k)]
        reports = [[0] for _ in range(k)]
        reports[r2.randrange(min(4, k))] = [3]          # an early test's report cannot be rebuilt
        cfg.update({"mode": mode, "numnodes": r2.choice([2, 3]), "coll": ids, "overrides": {}, "collreports": {}, "stops": [], "maxfail": 0,
                    "requeue": 0, "max_restart": 6, "reports": reports, "durs": [0] * k, "specs": [0, 0, 0], "crashers": [], "chunk": None})
        jobs.append({"kind": "online", "seed": seed, "cfg": cfg, "ext_crash_p": 0.0})
    return jobs


def extra(rnd, prof, tier):
    """+ sessions in which an initial worker or a REPLACEMENT collected a permuted / partly different list of the same length:
    'valid positions of the agreed collection' means positions of a list the addressed worker has itself agreed on (seeded C16-5:
    a replacement accepted after an order-insensitive comparison is sent indices that mean other tests there)"""
    jobs = written_off_jobs(rnd, prof, tier)
    if prof == "crash":
        from props import c09
        jobs += c09.disagree_jobs(rnd, 400 if tier == "quick" else 6000)
    return jobs


def run(out: common.Outcome):
    system_common.standard_run(
        out, "C16", [("nocrash", 0.3), ("crash", 0.7)], ["command_stream", "steal_protocol", "internal_error", "agreed_collection"],
        nontrivial=lambda r: len(r["cfg"]["coll"]) >= 2,
        rule="all modes; regular-language monitor over every down-wire (nothing after shutdown, at most one shutdown, valid indices, no index outstanding on two live workers, steals only of booked tests); non-trivial = at least two tests",
        modes=None, extra_jobs=extra, extra_corr=system_common.ctl_extra(['command_stream', 'internal_error']))


replay = system_common.replay
