"""C16 — the controller sends each worker a well-formed command stream."""
import common
from props import system_common


def run(out: common.Outcome):
    system_common.standard_run(
        out, "C16", [("nocrash", 0.3), ("crash", 0.7)], ["command_stream", "steal_protocol", "internal_error"],
        nontrivial=lambda r: len(r["cfg"]["coll"]) >= 2,
        rule="all modes; regular-language monitor over every down-wire (nothing after shutdown, at most one shutdown, valid indices, no index outstanding on two live workers, steals only of booked tests); non-trivial = at least two tests",
        modes=None)


replay = system_common.replay
