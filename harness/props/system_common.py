"""shared by the system-level properties: whole-session correspondence (real classes vs
Model/System.v, step by step) plus implementation-side monitors (the violation search)"""
import collections
import random

import common
import monitors
from common import Corr, Model, run_jobs

PINS = ["src/xdist/dsession.py", "src/xdist/workermanage.py", "src/xdist/remote.py",
        "src/xdist/scheduler/load.py", "src/xdist/scheduler/worksteal.py", "src/xdist/scheduler/loadscope.py",
        "src/xdist/scheduler/loadfile.py", "src/xdist/scheduler/loadgroup.py", "src/xdist/scheduler/each.py",
        "src/xdist/report.py"]


def canon_model_step(step):
    if step == ["disabled"]:
        return step
    o, w, v = step
    v = list(v)
    v[3] = sorted(v[3])
    return [o, w, v]


def run_sessions(out, corr, rnd, jobs, monitor_names, tag, nontrivial=None, skip_sig=None):
    """jobs: drive_sim 'online' jobs. Compares every step with the model and runs the monitors."""
    res = run_jobs("drive_sim.py", jobs, nproc=14, timeout=1500)
    good, inputs, impl_obs = [], [], []
    hist = collections.Counter()
    for j, r in zip(jobs, res):
        if not isinstance(r, dict):
            out.broke("driver:sim", {"job": j, "result": str(r)[:1500]})
            continue
        good.append(r)
        inputs.append([r["wire"], r["labels"]])
        impl_obs.append(r["obs"])
        cfg = r["cfg"]
        hist["mode:" + cfg["mode"]] += 1
        hist["workers:%d" % cfg["numnodes"]] += 1
        hist["tests:%s" % ("0" if not cfg["coll"] else "1-3" if len(cfg["coll"]) <= 3 else "4-8" if len(cfg["coll"]) <= 8 else "9+")] += 1
        hist["result:" + ("stuck" if r["stuck"] else str((r["summary"]["result"] or ["running"])[0]))] += 1
        hist["steps"] += len(r["labels"])
        hist["crashes"] += len(r["summary"]["dead"])
        hist["replacements"] += r["summary"]["nworkers"] - cfg["numnodes"]
        hist["steal_requests"] += sum(1 for o in r["obs"] if o != ["disabled"] for x in o[0] if x[0] == "send" and x[2][0] == "steal")
        for s, d in monitors.run_monitors(r, monitor_names):
            if skip_sig and skip_sig(s):
                continue
            out.report(s, {"detail": d, "seed": j.get("seed"), "cfg": {k: v for k, v in cfg.items() if k not in ("reports", "durs")}},
                       {"cfg": cfg, "labels": r["labels"]})
    # model side
    model_obs = corr.model.batch("system", inputs) if inputs else []
    mism = []
    nontriv = 0
    seen = set()
    for k, (r, a, b) in enumerate(zip(good, impl_obs, model_obs)):
        if b == ["bad-input"]:
            mism.append({"index": k, "why": "model rejected the input"})
            continue
        b = [canon_model_step(x) for x in b]
        if a != b:
            first = next((i for i, (x, y) in enumerate(zip(a, b)) if x != y), min(len(a), len(b)))
            mism.append({"index": k, "step": first, "label": r["labels"][first] if first < len(r["labels"]) else None,
                         "impl": a[first] if first < len(a) else None, "model": b[first] if first < len(b) else None,
                         "cfg": {kk: v for kk, v in r["cfg"].items() if kk not in ("reports", "durs")},
                         "labels": r["labels"][: first + 1]})
        key = common.to_line(inputs[k])
        if key not in seen:
            seen.add(key)
            if nontrivial is None or nontrivial(r):
                nontriv += 1
    rec = {"cases": len(inputs), "distinct": len(seen), "distinct_nontrivial": nontriv, "mismatches": len(mism),
           "histogram": dict(hist)}
    out.coverage.setdefault("correspondence", {})[tag] = rec
    out.coverage["evaluations"] = out.coverage.get("evaluations", 0) + len(inputs)
    out.coverage["distinct_nontrivial"] = out.coverage.get("distinct_nontrivial", 0) + nontriv
    if good:
        r = good[rnd.randrange(len(good))]
        out.coverage["samples"].append({"kind": "session:" + tag,
                                        "cfg": {k: v for k, v in r["cfg"].items() if k not in ("reports", "durs")},
                                        "schedule_prefix": r["labels"][:25], "steps": len(r["labels"]),
                                        "result": r["summary"]["result"]})
    ok_idx = [k for k in range(len(inputs)) if impl_obs[k] == [canon_model_step(x) for x in model_obs[k]] and len(inputs[k][1]) < 400]
    rnd.shuffle(ok_idx)
    for k in ok_idx[:6]:
        corr.incoq.append(("system", inputs[k], model_obs[k]))
    if mism:
        out.broke("correspondence:" + tag, mism[:3])
    return good


def run_ctl_histories(out, corr, rnd, n, monitor_names, tag="controller histories (injected worker messages)", modes=None, job_extra=None):
    """controller-level correspondence: the real DSession/scheduler/WorkerController fed with worker messages written by an
    abstract protocol-following worker that can also exit on a keyboard interrupt, exit with a stop request, send an
    internal_error event, send something undecodable or die at any point (harness/drive_ctl.py) — compared step by step with
    Model/CtlRun.v (the same System.v transition function plus message injection), monitors on the implementation side"""
    jobs = []
    for _ in range(n):
        j = {"kind": "online", "seed": rnd.randrange(1 << 30)}
        if modes:
            j["mode"] = rnd.choice(modes)
        if job_extra:
            j.update(job_extra(rnd))
        jobs.append(j)
    res = run_jobs("drive_ctl.py", jobs, nproc=14, timeout=1500)
    good, inputs, impl_obs = [], [], []
    hist = collections.Counter()
    for j, r in zip(jobs, res):
        if not isinstance(r, dict):
            out.broke("driver:ctl", {"job": j, "result": str(r)[:1500]})
            continue
        good.append(r)
        inputs.append([r["wire"], r["ops"]])
        impl_obs.append(r["obs"])
        hist["mode:" + r["cfg"]["mode"]] += 1
        hist["result:" + str((r["summary"]["result"] or ["running"])[0])] += 1
        hist["ops"] += len(r["ops"])
        faults = collections.Counter(o[2][0] + (":%d" % o[2][1] if o[2][0] == "workerfinished" else "") for o in r["ops"]
                                     if o[0] == "inject" and o[2][0] in ("internal_error", "garbled", "END", "workerfinished", "warning_recorded"))
        for k, v in faults.items():
            hist["inject:" + k] += v
        hist["crash_labels"] += sum(1 for o in r["ops"] if o[0] == "crash")
        fault_names = sorted({o[2][0] if o[2][0] != "workerfinished" else "workerfinished:%d" % o[2][1] for o in r["ops"]
                              if o[0] == "inject" and (o[2][0] in ("internal_error", "garbled") or (o[2][0] == "workerfinished" and o[2][1] == 2))})
        for s, d in monitors.run_monitors(r, monitor_names):
            s = dict(s, level="controller-history", after_internal_error="internal_error" in fault_names,
                     after_undecodable="garbled" in fault_names, after_keyboard_interrupt="workerfinished:2" in fault_names)
            out.report(s, {"detail": d, "seed": j.get("seed"), "cfg": {k: v for k, v in r["cfg"].items() if k not in ("reports", "durs")},
                           "last_ops": r["ops"][-12:]}, {"cfg": r["cfg"], "ops": r["ops"]})
    model_obs = corr.model.batch("ctl", inputs) if inputs else []
    mism = []
    for k, (r, a, b) in enumerate(zip(good, impl_obs, model_obs)):
        if b == ["bad-input"]:
            mism.append({"index": k, "why": "model rejected the input"}); continue
        b = [canon_model_step(x) for x in b]
        if a != b:
            first = next((i for i, (x, y) in enumerate(zip(a, b)) if x != y), min(len(a), len(b)))
            mism.append({"index": k, "step": first, "op": r["ops"][first] if first < len(r["ops"]) else None,
                         "impl": a[first] if first < len(a) else None, "model": b[first] if first < len(b) else None,
                         "cfg": {kk: v for kk, v in r["cfg"].items() if kk not in ("reports", "durs")}, "ops": r["ops"][: first + 1]})
    out.coverage.setdefault("correspondence", {})[tag] = {"cases": len(inputs), "mismatches": len(mism), "histogram": dict(hist),
                                                         "distinct_nontrivial": sum(1 for r in good if any(o[0] == "inject" and o[2][0] in ("internal_error", "garbled", "END") or (o[0] == "inject" and o[2] == ["workerfinished", 2]) for o in r["ops"]))}
    out.coverage["evaluations"] = out.coverage.get("evaluations", 0) + len(inputs)
    ok_idx = [k for k in range(len(inputs)) if impl_obs[k] == [canon_model_step(x) for x in model_obs[k]] and len(inputs[k][1]) < 300]
    rnd.shuffle(ok_idx)
    for k in ok_idx[:4]:
        corr.incoq.append(("ctl", inputs[k], model_obs[k]))
    if mism:
        out.broke("correspondence:" + tag, mism[:3])
    return good


def ctl_extra(monitor_names, quick_n=150, thorough_n=6000, then=None, job_extra=None):
    """an extra_corr hook for standard_run: controller histories with the given monitors (then another hook)"""
    def hook(out, corr, rnd):
        n = int((quick_n if out.tier == "quick" else thorough_n) * out.boost)
        run_ctl_histories(out, corr, rnd, n, monitor_names, job_extra=job_extra)
        if then:
            then(out, corr, rnd)
    return hook


def make_jobs(rnd, n, profile, modes=None, ext_crash_p=None, **extra):
    jobs = []
    for _ in range(n):
        j = {"kind": "online", "seed": rnd.randrange(1 << 30), "profile": profile,
             "ext_crash_p": (0.0 if profile == "nocrash" else 0.01) if ext_crash_p is None else ext_crash_p}
        if modes:
            j["mode"] = rnd.choice(modes)
        j.update(extra)
        jobs.append(j)
    return jobs


def standard_run(out, pid, profiles, monitor_names, nontrivial, rule, modes=None, quick_n=360, thorough_n=30000,
                 skip_sig=None, extra_jobs=None, extra_corr=None):
    rnd = random.Random(out.seed + sum(map(ord, pid)))
    model = Model()
    corr = Corr(out, model, rnd)
    common.pins_changed(out, PINS)
    n = quick_n if out.tier == "quick" else thorough_n
    n = int(n * out.boost)
    for prof, share in profiles:
        jobs = make_jobs(rnd, max(1, int(n * share)), prof, modes=modes)
        if out.tier != "quick":
            jobs += make_jobs(rnd, max(1, int(n * share) // 10), prof, modes=modes, big=True)     # 2-5 workers, 13-34 tests
        if extra_jobs:
            jobs += extra_jobs(rnd, prof, out.tier)
        run_sessions(out, corr, rnd, jobs, monitor_names, f"sessions({prof})", nontrivial=nontrivial, skip_sig=skip_sig)
    if extra_corr:
        extra_corr(out, corr, rnd)
    corr.finish_incoq(pid)
    model.close()
    out.coverage["rule"] = rule
    out.assumptions += [
        "whole sessions are simulated in one process from the real DSession/scheduler/WorkerController/WorkerInteractor/TestQueue classes; execnet channels, test execution and report (de)serialisation are stand-ins",
        "per-channel FIFO, end marker after all earlier events, Channel.send raising OSError on a closed channel (execnet)",
    ]


def replay(out, path):
    """re-run a recorded schedule on the implementation and print what the monitors say"""
    import json
    v = json.load(open(path))
    rp = (v.get("violation") or {}).get("replay")
    if not rp or "cfg" not in rp:
        print(json.dumps(v, indent=1)[:6000])
        return 0
    r = run_jobs("drive_sim.py", [{"kind": "replay", "cfg": rp["cfg"], "labels": rp["labels"]}], nproc=1)[0]
    found = monitors.run_monitors(r, list(monitors.ALL)) if isinstance(r, dict) else []
    print(json.dumps({"result": r["summary"]["result"] if isinstance(r, dict) else r, "monitors": [s for s, _ in found]}, indent=1))
    return 1 if found else 0
