"""C17 — losing a worker at any stage of its life never wedges or crashes the controller."""
import common
from props import system_common


def lifecycle_jobs(rnd, prof, tier):
    n = 120 if tier == "quick" else 4000
    return system_common.make_jobs(rnd, n, "crash", ext_crash_p=0.04)


E2E_CONFTEST = '''
import os
def pytest_report_from_serializable(config, data):
    # controller side only: the call report of one test cannot be rebuilt
    if not os.environ.get("PYTEST_XDIST_WORKER") and data.get("nodeid", "").endswith("test_weird") and data.get("when") == "call":
        raise ValueError("cannot rebuild this report")
'''


def e2e_undecodable(out, corr, rnd):
    """glue no model contains: a REAL run in which the controller cannot rebuild one report (the receiver thread's
    exception path, real execnet, real workers): no internal error, the worker is written off and replaced, every other
    test passes, the lost one is reported once as crashed"""
    import re
    import shutil
    import e2e
    nruns = int((2 if out.tier == "quick" else 12) * out.boost)
    for k in range(nruns):
        proj = e2e.new_project()
        try:
            nt = rnd.randint(4, 9)
            weird = rnd.randrange(nt)
            body = ["import time", ""]
            for i in range(nt):
                body += ["def test_%s():" % ("weird" if i == weird else "t%d" % i), "    time.sleep(%s)" % rnd.choice(["0", "0.02", "0.05"]), ""]
            open(proj + "/test_u.py", "w").write("\n".join(body))
            open(proj + "/conftest.py", "w").write(E2E_CONFTEST)
            args = ["-q", "-n%d" % rnd.choice([1, 2, 3]), "--dist", rnd.choice(["load", "worksteal", "loadscope", "loadfile", "each"] if k else ["load"])]
            rc, o, _rec = e2e.run_pytest(proj, args)
            each = "each" in args
            nw = int(args[1][2:])
            sig = {"kind": "e2e-undecodable-report"}
            replay = {"args": args, "ntests": nt, "weird": weird}
            t = e2e.tallies(o)
            if rc == "timeout":
                out.report(dict(sig, what="hang"), {"tail": o[-600:]}, replay); continue
            if re.search(r"INTERNALERROR> \w*(KeyError|AssertionError|AttributeError)", o) or rc == 3:
                out.report(dict(sig, what="internal-error"), {"rc": rc, "tail": o[-900:]}, replay); continue
            want_pass = (nt - 1) * (nw if each else 1)
            if t.get("passed", 0) != want_pass or t.get("failed", 0) != (nw if each else 1):
                out.report(dict(sig, what="tallies"), {"tallies": t, "expected_passed": want_pass, "tail": o[-600:]}, replay)
            out.coverage["samples"].append({"kind": "e2e-undecodable-report", "args": args, "tallies": t, "exit": rc})
        finally:
            shutil.rmtree(proj, ignore_errors=True)
    out.coverage["e2e_runs"] = out.coverage.get("e2e_runs", 0) + nruns
    out.coverage["evaluations"] += nruns


def run(out: common.Outcome):
    system_common.standard_run(
        out, "C17", [("crash", 1.0)], ["internal_error", "stuck", "exactly_once", "restart_budget"],
        nontrivial=lambda r: len(r["summary"]["dead"]) >= 1,
        rule="all modes with external kills at every lifecycle stage (booting, collecting, collected, idle, shutting down) and crashing tests, and reports the controller cannot rebuild (worker written off); plus real pytest runs with an undecodable report; non-trivial = at least one death",
        modes=None, extra_jobs=lifecycle_jobs, extra_corr=system_common.ctl_extra(["internal_error", "restart_budget"], then=e2e_undecodable))


replay = system_common.replay
