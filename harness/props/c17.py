"""C17 — losing a worker at any stage of its life never wedges or crashes the controller."""
import common
from props import system_common


def lifecycle_jobs(rnd, prof, tier):
    n = 120 if tier == "quick" else 4000
    return system_common.make_jobs(rnd, n, "crash", ext_crash_p=0.04)


def run(out: common.Outcome):
    system_common.standard_run(
        out, "C17", [("crash", 1.0)], ["internal_error", "stuck", "exactly_once", "restart_budget"],
        nontrivial=lambda r: len(r["summary"]["dead"]) >= 1,
        rule="all modes with external kills at every lifecycle stage (booting, collecting, collected, idle, shutting down) and crashing tests; non-trivial = at least one death",
        modes=None, extra_jobs=lifecycle_jobs)


replay = system_common.replay
