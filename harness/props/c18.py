"""C18 — loop-on-fail detects exactly the real changes and remembers the failing tests."""
import random

import common
from common import Corr, Model, run_jobs

PINS = ["src/xdist/looponfail.py", "src/xdist/_path.py"]
NAMES = ["a.py", "b.py", "c.txt", ".hidden", "x.pyc", "mod.py", "d.pyc", "data", "conf.ini", "..pyc", "e.py"]
DIRS = ["pkg", "sub", ".git", "deep", "t"]


def rnd_path(rnd, dirs_only=False):
    depth = rnd.choice([0, 1, 1, 2])
    comps = [rnd.choice(DIRS) for _ in range(depth)]
    if not dirs_only:
        comps.append(rnd.choice(NAMES))
    elif not comps:
        comps = [rnd.choice(DIRS)]
    return comps


def gen_job(rnd):
    rk = rnd.random()
    if rk < 0.4:
        roots = [[]]
    elif rk < 0.6:
        roots = [["pkg"], ["sub"]]
    elif rk < 0.8:
        roots = [[], ["pkg"]]                       # nested
    elif rk < 0.9:
        roots = [["pkg"], ["pkg"]]                  # duplicated
    else:
        roots = [["pkg", "sub"], ["nonexistent"], ["pkg"]]
    polls = []
    clock = [1000]
    def op():
        clock[0] += rnd.choice([0, 1, 5])
        k = rnd.random()
        # a quarter of the time stamps lie in the PAST (restored backup, checkout of an older file, clock skew)
        t = clock[0] if rnd.random() < 0.75 else clock[0] - rnd.choice([1, 5, 100, 900])
        if k < 0.35:
            return ["write", rnd_path(rnd), rnd.randint(0, 3), t]
        if k < 0.5:
            return ["touch", rnd_path(rnd), t]
        if k < 0.65:
            return ["rm", rnd_path(rnd)]
        if k < 0.75:
            return ["mkdir", rnd_path(rnd, True)]
        if k < 0.82:
            return ["rmdir", rnd_path(rnd, True)]
        return ["mv", rnd_path(rnd), rnd_path(rnd)]
    polls.append([["write", rnd_path(rnd), rnd.randint(0, 3), 1000] for _ in range(rnd.randint(0, 6))])
    for _ in range(rnd.randint(2, 7)):
        polls.append([] if rnd.random() < 0.35 else [op() for _ in range(rnd.randint(1, 3))])
    return {"kind": "statrec", "roots": roots, "polls": polls}


def run(out: common.Outcome):
    rnd = random.Random(out.seed + 18)
    model = Model()
    corr = Corr(out, model, rnd)
    common.pins_changed(out, PINS)
    n = 300 if out.tier == "quick" else 8000
    n = int(n * out.boost)
    jobs = [gen_job(rnd) for _ in range(n)]
    res = run_jobs("drive_pure.py", jobs, nproc=12)
    inputs, obs = [], []
    hist = {"polls": 0, "changed": 0, "unchanged": 0, "nested_or_dup_roots": 0}
    for j, r in zip(jobs, res):
        if not isinstance(r, dict):
            out.broke("driver:statrec", {"job": j, "result": r})
            continue
        inputs.append([j["roots"], r["snaps"]])
        obs.append([[0 if f is None else f for f in r["flags"]], r["cache"]])
        hist["polls"] += len(r["flags"]) - 1
        hist["changed"] += sum(1 for f in r["flags"][1:] if f)
        hist["unchanged"] += sum(1 for f in r["flags"][1:] if not f)
        if len(j["roots"]) > 1:
            hist["nested_or_dup_roots"] += 1
        # monitor (independent oracle): a poll reports a change iff the set of watched (path, mtime, size) changed
        prev = None
        for f, snap in zip(r["flags"], r["snaps"]):
            cur = watched(snap, j["roots"])
            if prev is not None and bool(f) != (cur != prev):
                out.report({"kind": "change-detection-wrong", "reported": bool(f)}, {"job": j, "prev": sorted(prev), "cur": sorted(cur)}, j)
                break
            prev = cur
    model_obs = model.batch("statrec", inputs)
    canon = []
    for m in model_obs:
        if m == ["bad-input"]:
            canon.append(m); continue
        flags, cache = m
        canon.append([[0] + flags[1:], sorted(cache)])
    mism = [{"input": i, "impl": a, "model": b} for i, a, b in zip(inputs, obs, canon) if a != b]
    out.coverage["correspondence"]["StatRecorder.check"] = {"cases": len(inputs), "mismatches": len(mism), "histogram": hist,
                                                            "distinct_nontrivial": sum(1 for o in obs if any(o[0][1:]))}
    out.coverage["evaluations"] += len(inputs)
    out.coverage["distinct_nontrivial"] += sum(1 for o in obs if any(o[0][1:]))
    if inputs:
        out.coverage["samples"].append({"kind": "statrec", "roots": jobs[0]["roots"], "polls": jobs[0]["polls"][:3]})
    if mism:
        out.broke("correspondence:StatRecorder.check", mism[:3])
    for k in range(min(8, len(inputs))):
        if obs[k] == canon[k] and len(common.to_line(inputs[k])) < 6000:
            corr.incoq.append(("statrec", inputs[k], model_obs[k]))
    # failure memory
    ids = ["t1", "t2", "t3", "t1", ""]
    rjobs = []
    for _ in range(150 if out.tier == "quick" else 3000):
        rjobs.append({"kind": "remember", "old": [rnd.choice(ids) for _ in range(rnd.randint(0, 3))],
                      "failures": [rnd.choice(ids) for _ in range(rnd.randint(0, 5))], "collection_failed": rnd.random() < 0.3})
    rres = run_jobs("drive_pure.py", rjobs, nproc=4)
    corr.compare("RemoteControl.loop_once failure memory", "remember",
                 [[j["old"], j["failures"], int(j["collection_failed"])] for j in rjobs], rres,
                 nontrivial=lambda i, o: len(i[1]) > len(set(i[1])))
    for j, r in zip(rjobs, rres):
        exp = j["old"] if j["collection_failed"] else list(dict.fromkeys(j["failures"]))
        if r != exp:
            out.report({"kind": "failure-memory-wrong"}, {"job": j, "got": r, "expected": exp}, j)
    corr.finish_incoq("C18")
    model.close()
    out.coverage["rule"] = ("sequences of polls over a real temporary directory with create/modify/touch/delete/rename/mkdir/rmdir operations, hidden and "
                            ".pyc names, explicit mtimes (os.utime; a quarter of them in the past), root sets single / several / nested / duplicated / missing; "
                            "non-trivial = at least one poll reported a change")
    out.assumptions += ["os.walk / stat / pathlib semantics without symlinks; the stat race branch (file vanishing between walk and stat) is not exercised",
                        "the file-system snapshot handed to the model is taken by the harness"]


def watched(snap, roots):
    """independent oracle: {(path, mtime, size)} of watched files"""
    def find(node, comps):
        for c in comps:
            if node[0] != "d":
                return None
            nxt = [x for x in node[2] if x[1] == c]
            if not nxt:
                return None
            node = nxt[0]
        return node if node[0] == "d" else None
    acc = set()
    def walk(node, prefix):
        for x in node[2]:
            if x[0] == "f":
                n = x[1]
                if not n.startswith(".") and not (n.endswith(".pyc") and len(n) > 4 and n.rfind(".") > 0):
                    acc.add((tuple(prefix + [n]), x[2], x[3]))
            elif not x[1].startswith("."):
                walk(x, prefix + [x[1]])
    for r in roots:
        node = find(snap, r)
        if node is not None:
            walk(node, list(r))
    return acc


def replay(out, path):
    import json
    print(json.dumps(json.load(open(path)), indent=1)[:5000])
    return 0
