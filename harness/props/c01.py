"""C01 — every collected test runs exactly once under load-balancing distribution (no worker failure)."""
import common
from props import system_common


def worker_half(out, corr, rnd):
    """the worker's half of 'exactly once': every lock-section interleaving of the receiver thread (run / steal /
    shutdown commands) with the main thread — what is assigned and not withdrawn is run, once"""
    from props import worker_common
    n = int((500 if out.tier == "quick" else 15000) * out.boost)
    worker_common.run_worker_corr(out, corr, rnd, n, "worker(TestQueue+WorkerInteractor, lock-section interleavings)")


def run(out: common.Outcome):
    system_common.standard_run(
        out, "C01", [("nocrash", 1.0)], ["exactly_once", "nextitem", "report_fifo", "stuck", "internal_error", "command_stream"],
        nontrivial=lambda r: len(r["cfg"]["coll"]) >= 2 and r["cfg"]["numnodes"] >= 1,
        rule="random configurations (5 load-balancing modes, 1-3 workers, 0-13 tests with file/class/group structure, --maxschedchunk, durations) x online-generated schedules of deliver/receiver/main/controller steps, no crashes; non-trivial = at least two tests",
        modes=["load", "worksteal", "loadscope", "loadfile", "loadgroup"], extra_corr=worker_half)


replay = system_common.replay
