"""C19 — remote runs map arguments into synced roots and filter files as documented."""
import random

import common
from common import Corr, Model, run_jobs

PINS = ["src/xdist/workermanage.py"]
TREE = ["proj/", "proj/pkg/", "proj/pkg/test_a.py", "proj/pkg/sub/", "proj/pkg/sub/test_b.py", "proj/other/", "proj/other/test_c.py",
        "lib/", "lib/x.py", "proj/pkg/we ird.py", "outside.py", "proj/pkg_tests/", "proj/pkg_tests/test_d.py", "proj/pkg2/",
        "proj/pkg2/test_e.py", "lib.old/", "lib.old/y.py", "proj/pkg.py"]
SELECTORS = ["", "::test_x", "::TestK::test_m", "::test_p[a::b]", "::", "::a::"]
PAT_CHARS = ["a", "b", ".", "*", "?", "[ab]", "[!a]", "[a-c]", "[]a]", "[", "~", "py", "c", "/", "-", "[!]]", "x"]
STR_CHARS = ["a", "b", "c", ".", "/", "~", "py", "x", "[", "]", "-", "d"]


def run(out: common.Outcome):
    rnd = random.Random(out.seed + 19)
    model = Model()
    corr = Corr(out, model, rnd)
    common.pins_changed(out, PINS)
    n = 250 if out.tier == "quick" else 6000
    n = int(n * out.boost)
    # ---- make_reltoroot
    jobs = []
    for _ in range(n):
        roots = rnd.sample(["$B/proj", "$B/proj/pkg", "$B/lib", "$B/nonexistent", "proj"], rnd.randint(0, 3))
        args = []
        for _ in range(rnd.randint(1, 3)):
            base = rnd.choice(["$B/proj/pkg/test_a.py", "$B/proj/pkg/sub/test_b.py", "$B/proj/pkg", "$B/proj", "$B/lib/x.py",
                               "$B/outside.py", "$B/proj/pkg//test_a.py", "$B/proj/./pkg/test_a.py", "$B/proj/pkg/", "proj/pkg/test_a.py",
                               "nothere.py", "$B/proj/missing.py", "$B/proj/pkg/we ird.py", "$B/proj/other/../pkg/test_a.py", "-k", "expr and x",
                               "$B/proj/pkg_tests/test_d.py", "$B/proj/pkg2/test_e.py", "$B/lib.old/y.py", "$B/proj/pkg.py", "$B/proj/pkg2"])
            args.append(base + rnd.choice(SELECTORS))
        jobs.append({"kind": "reltoroot", "tree": TREE, "roots": roots, "args": args})
    res = run_jobs("drive_pure.py", jobs, nproc=10)
    inputs, obs = [], []
    hist = {"rewritten": 0, "unchanged": 0, "rejected": 0}
    for j, r in zip(jobs, res):
        if not isinstance(r, dict):
            out.broke("driver:reltoroot", {"job": j, "result": r}); continue
        inputs.append([r["roots"], r["existing"], r["args"]])
        obs.append(r["result"])
        if r["result"][:1] == ["err"]:
            hist["rejected"] += 1
        else:
            hist["rewritten"] += sum(1 for a, b in zip(r["args"], r["result"]) if a != b)
            hist["unchanged"] += sum(1 for a, b in zip(r["args"], r["result"]) if a == b)
        # monitor (independent of the model): containment is by path COMPONENTS; first containing root; outside all roots -> rejected
        exp = _expected_reltoroot(r["roots"], r["existing"], r["args"])
        if exp is not None and exp != r["result"]:
            kind = ("outside-arg-accepted" if exp[:1] == ["err"] else "inside-arg-rejected" if r["result"][:1] == ["err"] else "rewritten-wrongly")
            out.report({"kind": kind, "function": "make_reltoroot"}, {"roots": r["roots"], "args": r["args"], "expected": exp, "got": r["result"]}, j)
        # monitor: selectors preserved, non-existing args untouched
        if r["result"][:1] != ["err"]:
            for a, b in zip(r["args"], r["result"]):
                if a.split("::")[0] not in r["existing"] and a != b:
                    out.report({"kind": "nonexistent-arg-rewritten"}, {"arg": a, "got": b}, j)
                if a.split("::")[1:] != b.split("::")[1:]:
                    out.report({"kind": "selector-changed"}, {"arg": a, "got": b}, j)
    corr.compare("make_reltoroot", "reltoroot", inputs, obs, nontrivial=lambda i, o: o[:1] == ["err"] or any(a != b for a, b in zip(i[2], o)),
                 histogram=hist)
    # ---- fnmatch / filter
    fj, fin = [], []
    for _ in range(n * 3):
        pat = "".join(rnd.choice(PAT_CHARS) for _ in range(rnd.randint(0, 4)))
        s = "".join(rnd.choice(STR_CHARS) for _ in range(rnd.randint(0, 5)))
        if any(x in pat for x in ("--", "[-", "-]")) or "[a-c" in pat and "[a-c]" not in pat:
            continue
        fj.append({"kind": "fnmatch", "pat": pat, "s": s}); fin.append([pat, s])
    fres = run_jobs("drive_pure.py", fj, nproc=6)
    corr.compare("fnmatch.translate semantics", "fnmatch", fin, fres, nontrivial=lambda i, o: o == 1)
    rj, rin = [], []
    defaults = [".*", "*.pyc", "*.pyo", "*~"]
    for _ in range(n):
        ign = defaults + [rnd.choice(["build", "*.egg-info", "sub/*", "/abs/x", "t?st", "[ab]*"]) for _ in range(rnd.randint(0, 2))]
        p = "/".join(rnd.choice(["src", ".git", "a.pyc", "a.py", "b.pyo", "c~", "build", "x.egg-info", "sub", "test", ".hidden.py", "abs", "x", "bq"])
                     for _ in range(rnd.randint(1, 3)))
        if rnd.random() < 0.3:
            p = "/" + p
        rj.append({"kind": "rsync_filter", "ignores": ign, "path": p}); rin.append([ign, p])
    rres = run_jobs("drive_pure.py", rj, nproc=6)
    corr.compare("HostRSync.filter", "rsync_filter", rin, rres, nontrivial=lambda i, o: o == 0)
    import fnmatch as _fn, posixpath as _pp
    for (ign, p), o in zip(rin, rres):
        # the documented rule, stated with the library matcher: excluded iff base name or full path matches some pattern
        norm = _pp.normpath(p) if p else p
        want = int(not any(_fn.fnmatchcase(_pp.basename(norm), g) or _fn.fnmatchcase(norm, g) for g in ign))
        if isinstance(o, int) and o != want:
            out.report({"kind": "filter-" + ("excludes-unmatched" if want else "keeps-matched"), "function": "HostRSync.filter"},
                       {"ignores": ign, "path": p, "kept": o, "expected_kept": want}, {"kind": "rsync_filter", "ignores": ign, "path": p})
    # ---- which specs synchronise
    sj, sin = [], []
    for _ in range(40 if out.tier == "quick" else 400):
        specs = [[rnd.randint(0, 1), rnd.randint(0, 1)] for _ in range(rnd.randint(1, 3))]
        sj.append({"kind": "specs", "specs": specs}); sin.append(specs)
    sres = run_jobs("drive_pure.py", sj, nproc=4)
    corr.compare("rsync decisions (_getrsyncdirs, rsync(), setup())", "specs", sin, sres)
    for specs, r in zip(sin, sres):
        if isinstance(r, list) and all(p and not c for p, c in specs) and (r[0] or any(x[0] or x[1] for x in r[1])):
            out.report({"kind": "local-popen-synchronises"}, {"specs": specs, "obs": r}, {"specs": specs})
    corr.finish_incoq("C19")
    model.close()
    out.coverage["rule"] = ("arguments (existing/non-existing paths, '::' selectors incl. '::' inside brackets, the root itself, non-normalised paths, "
                            "relative paths) x root sets on a real temporary tree; fnmatch patterns from an alphabet with '*', '?', bracket classes, "
                            "negation, ranges, unterminated '['; ignore lists = defaults + user patterns; all spec kinds (popen/ssh x chdir)")
    out.assumptions += ["fnmatch.translate modelled for patterns without degenerate ranges ('z-a', '--'); patterns outside that subset are not generated",
                        "pathlib's lexical normalisation (no symlinks, no '//' anchor)"]


def _expected_reltoroot(roots, existing, args):
    """the documented behaviour computed on path components (PurePosixPath.parts), independent of model and code under test"""
    from pathlib import PurePosixPath as P
    res = []
    for a in args:
        parts = a.split("::")
        if parts[0] not in existing:
            res.append(a); continue
        fp = P(parts[0]).parts
        for r in roots:
            rp = P(r).parts
            if fp[:len(rp)] == rp and (len(rp) > 0):
                rel = "/".join(fp[len(rp):]) or "."
                res.append("::".join([P(r).name + "/" + rel] + parts[1:])); break
        else:
            return ["err", "ValueError"]
    return res


def replay(out, path):
    import json
    print(json.dumps(json.load(open(path)), indent=1)[:5000])
    return 0
