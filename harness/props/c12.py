"""C12 — workers have unique stable identities and a shared run identity."""
import random
import shutil

import common
import e2e
from common import Corr, Model
from props import system_common

SUITE = '''
import os, time
import pytest

@pytest.mark.parametrize("i", range(%d))
def test_t(i):
    if i in %r and not os.path.exists("crashed_%%d" %% i):
        open("crashed_%%d" %% i, "w").close()
        os._exit(1)
    time.sleep(0.01)
'''


def run(out: common.Outcome):
    rnd = random.Random(out.seed + 12)
    model = Model()
    corr = Corr(out, model, rnd)
    common.pins_changed(out, system_common.PINS + ["src/xdist/plugin.py"])
    n = 200 if out.tier == "quick" else 6000
    n = int(n * out.boost)
    # replacement ids in simulated sessions: distinct, gwN, never reused
    jobs = system_common.make_jobs(rnd, n, "crash")
    good = system_common.run_sessions(out, corr, rnd, jobs, ["internal_error"], "sessions(crash)",
                                      nontrivial=lambda r: r["summary"]["nworkers"] > r["cfg"]["numnodes"])
    for r in good:
        ids = [o[1] for ob in r["obs"] if ob != ["disabled"] for o in ob[0] if o[0] == "spawn"]
        nn = r["cfg"]["numnodes"]
        if ids != list(range(nn, nn + len(ids))):
            out.report({"kind": "replacement-ids-not-fresh"}, {"ids": ids, "numnodes": nn}, {"cfg": r["cfg"], "labels": r["labels"]})
    corr.finish_incoq("C12")
    model.close()
    # ---- glue: environment, fixtures, temporary directories in real runs with replacements
    nruns = 2 if out.tier == "quick" else 10
    nruns = int(nruns * out.boost)
    runs = 0
    for k in range(nruns):
        proj = e2e.new_project()
        try:
            ntests = rnd.randint(6, 12)
            crashers = sorted(rnd.sample(range(ntests), rnd.randint(1, 2)))
            open(proj + "/test_ids.py", "w").write(SUITE % (ntests, set(crashers)))
            open(proj + "/conftest.py", "w").write(e2e.CONFTEST)
            nw = rnd.choice([2, 3])
            uid = rnd.choice([None, "myrun%d" % k])
            # the workers are configured with -nK, or with the --tx multiplier syntax ('N*spec' expands to N workers)
            how = rnd.choice(["-n", "tx-mult", "tx-mixed"]) if k >= 1 else "tx-mult"
            env_args = ["-n%d" % nw] if how == "-n" else ["--tx", "%d*popen" % nw] if how == "tx-mult" else \
                       ["--tx", "%d*popen" % (nw - 1), "--tx", "popen"]
            args = ["-q"] + env_args + ["--dist", rnd.choice(["load", "worksteal", "loadscope"])] + (["--testrunuid", uid] if uid else [])
            env_extra = {"VERIF_E2E_PROBE": "1"}
            nested = k % 2 == 1
            if nested:   # the controller itself runs inside a worker of an outer run (a suite that starts `pytest -n` runs, run with -n)
                env_extra.update({"PYTEST_XDIST_WORKER": "gw7", "PYTEST_XDIST_WORKER_COUNT": "9", "PYTEST_XDIST_TESTRUNUID": "outer" + "0" * 27})
            rc, o, rec = e2e.run_pytest(proj, args, env_extra=env_extra)
            runs += 1
            probes = [r for r in rec if r["ev"] == "probe"]
            reports = [r for r in rec if r["ev"] == "report"]
            replay = {"args": args, "ntests": ntests, "crashers": crashers, "nested": nested}
            sig = {"kind": "e2e-identity"}
            if rc == "timeout" or not probes:
                out.report(dict(sig, what="run-did-not-complete"), {"rc": rc, "tail": o[-600:]}, replay); continue
            by_pid = {}
            for p in probes:
                by_pid.setdefault(p["pid"], set()).add(p["worker_id"])
                if p["env_worker"] != p["worker_id"] or not str(p["worker_id"]).startswith("gw"):
                    out.report(dict(sig, what="worker-id-env-fixture-mismatch"), p, replay)
                if p["env_count"] != str(nw):
                    out.report(dict(sig, what="worker-count-wrong"), p, replay)
                if p["env_uid"] != p["testrun_uid"] or (uid and p["testrun_uid"] != uid):
                    out.report(dict(sig, what="testrun-uid-mismatch"), p, replay)
            ident = {p["pid"]: (p["worker_id"], p["testrun_uid"]) for p in probes}
            for ip in (r for r in rec if r["ev"] == "import_probe"):
                if ip["pid"] in ident and (ip["env_worker"], ip["env_count"], ip["env_uid"]) != (ident[ip["pid"]][0], str(nw), ident[ip["pid"]][1]):
                    out.report(dict(sig, what="identity-not-in-environment-while-the-worker-configures"), {"import_time": ip, "identity": ident[ip["pid"]]}, replay)
            if len({p["testrun_uid"] for p in probes}) != 1:
                out.report(dict(sig, what="testrun-uid-not-shared"), {"uids": sorted({p["testrun_uid"] for p in probes})}, replay)
            ids_per_pid = {pid: ids for pid, ids in by_pid.items()}
            if any(len(v) != 1 for v in ids_per_pid.values()):
                out.report(dict(sig, what="worker-id-not-stable-within-process"), {k2: sorted(v) for k2, v in ids_per_pid.items()}, replay)
            all_ids = [next(iter(v)) for v in ids_per_pid.values()]
            if len(set(all_ids)) != len(all_ids):
                out.report(dict(sig, what="worker-id-reused-by-another-process"), {"ids": sorted(all_ids)}, replay)
            temps = {}
            for p in probes:
                temps.setdefault(p["worker_id"], set()).add(p["basetemp"])
            parents = {str(__import__("pathlib").Path(next(iter(v))).parent) for v in temps.values()}
            if any(len(v) != 1 for v in temps.values()) or len({next(iter(v)) for v in temps.values()}) != len(temps):
                out.report(dict(sig, what="basetemp-not-one-per-worker"), {k2: sorted(v) for k2, v in temps.items()}, replay)
            if len(parents) != 1:
                out.report(dict(sig, what="basetemps-without-common-parent"), sorted(parents), replay)
            for r in reports:
                if r["when"] != "???" and (r["worker"] is None or r["worker"] != r["worker_id_attr"]):
                    out.report(dict(sig, what="report-without-worker-id"), r, replay); break
            out.coverage["samples"].append({"kind": "e2e-identity", "args": args, "worker_processes": len(by_pid), "ids": sorted(set(all_ids))})
        finally:
            shutil.rmtree(proj, ignore_errors=True)
    out.coverage["e2e_runs"] = runs
    out.coverage["evaluations"] += runs
    out.coverage["rule"] = ("simulated sessions with crashes (ids of replacements must be the next unused gw numbers); real -n2/-n3 runs in which tests kill their "
                            "worker, (every other run nested inside an outer worker's environment), the conftest at import time and every test recording PYTEST_XDIST_WORKER / _WORKER_COUNT / _TESTRUNUID, the worker_id and testrun_uid fixtures, its pid "
                            "and tmp_path_factory.getbasetemp(); non-trivial = at least one replacement worker")
    out.assumptions.append("environment variables, fixtures and temporary directories are real-run observations (no model can contain the OS); execnet's id allocation is a counter in the model")


replay = system_common.replay
