"""C09 — tests are only dispatched against an agreed collection."""
import random

import common
from common import Corr, Model, run_jobs
from props import system_common


def disagree_jobs(rnd, n):
    """sessions in which initial and/or replacement workers collect something else"""
    import drive_sim
    jobs = []
    for _ in range(n):
        seed = rnd.randrange(1 << 30)
        r2 = random.Random(seed)
        cfg = drive_sim.make_cfg(r2, {"profile": "crash"})
        ids = cfg["coll"]
        if len(ids) >= 1:
            who = r2.choice(["initial", "late", "both"])
            nn = cfg["numnodes"]
            def alt():
                k = r2.random()
                a = list(ids)
                if k < 0.4:
                    r2.shuffle(a)
                    if a == ids:
                        a = a[::-1]
                elif k < 0.7:
                    a = a[:-1] + ["other.py::x"]
                else:
                    a = a + ["extra.py::y"] if r2.random() < 0.5 else a[:-1] + ["other.py::x"]
                return a
            if who in ("initial", "both") and nn >= 2:
                a1 = alt()
                for w in r2.sample(range(nn), r2.choice([1, 1, 2, min(nn, 3)]) if nn >= 2 else 1):
                    # several workers may disagree, in the same way or each in its own
                    cfg["overrides"][w] = a1 if r2.random() < 0.6 else alt()
            if who in ("late", "both"):
                cfg["overrides"][nn + r2.randrange(2)] = alt()
                if not cfg["crashers"]:
                    cfg["crashers"] = [[r2.randrange(nn), r2.randrange(len(ids))]]
        # same length only: an index beyond a shorter collection would make the WORKER fail (not modelled)
        cfg["overrides"] = {k: v for k, v in cfg["overrides"].items() if len(v) == len(ids)}
        jobs.append({"kind": "online", "seed": seed, "cfg": cfg, "ext_crash_p": 0.01})
    return jobs


def run(out: common.Outcome):
    rnd = random.Random(out.seed + 9)
    model = Model()
    corr = Corr(out, model, rnd)
    common.pins_changed(out, system_common.PINS)
    n = 300 if out.tier == "quick" else 10000
    n = int(n * out.boost)
    mons = ["agreed_collection", "internal_error", "stuck"]
    system_common.run_sessions(out, corr, rnd, disagree_jobs(rnd, n), mons, "sessions(disagreeing collections)",
                               nontrivial=lambda r: bool(r["cfg"]["overrides"]))
    system_common.run_sessions(out, corr, rnd, system_common.make_jobs(rnd, n // 3, "crash"), mons, "sessions(crash)",
                               nontrivial=lambda r: len(r["summary"]["dead"]) >= 1)
    # report_collection_diff: None exactly for equal collections
    pairs = []
    for _ in range(200 if out.tier == "quick" else 5000):
        a = ["t%d" % rnd.randrange(4) for _ in range(rnd.randint(0, 4))]
        b = list(a) if rnd.random() < 0.4 else ["t%d" % rnd.randrange(4) for _ in range(rnd.randint(0, 4))]
        pairs.append([a, b])
    res = run_jobs("drive_pure.py", [{"kind": "colldiff", "case": p} for p in pairs], nproc=4)
    corr.compare("report_collection_diff is None iff equal", "coll_eq", pairs, res,
                 nontrivial=lambda i, o: i[0] != i[1])
    corr.finish_incoq("C09")
    model.close()
    out.coverage["rule"] = ("sessions in which an initial worker and/or a replacement collects a permuted / partly different list of the same length, "
                            "in all arrival orders the schedules produce; non-trivial = some worker's collection differs")
    out.assumptions.append("collections of different LENGTH are not simulated at system level (an out-of-range index fails inside the worker, which the worker model does not cover)")


replay = system_common.replay
