"""C09 — tests are only dispatched against an agreed collection."""
import random

import common
from common import Corr, Model, run_jobs
from props import system_common


def disagree_jobs(rnd, n):
    """sessions in which initial and/or replacement workers collect something else"""
    import drive_sim
    jobs = []
    for _ in range(n):
        seed = rnd.randrange(1 << 30)
        r2 = random.Random(seed)
        cfg = drive_sim.make_cfg(r2, {"profile": "crash"})
        ids = cfg["coll"]
        if len(ids) >= 1:
            who = r2.choice(["initial", "late", "both"])
            nn = cfg["numnodes"]
            def alt():
                k = r2.random()
                a = list(ids)
                if k < 0.4:
                    r2.shuffle(a)
                    if a == ids:
                        a = a[::-1]
                elif k < 0.7:
                    a = a[:-1] + ["other.py::x"]
                else:
                    a = a + ["extra.py::y"] if r2.random() < 0.5 else a[:-1] + ["other.py::x"]
                return a
            if who in ("initial", "both") and nn >= 2:
                a1 = alt()
                for w in r2.sample(range(nn), r2.choice([1, 1, 2, min(nn, 3)]) if nn >= 2 else 1):
                    # several workers may disagree, in the same way or each in its own
                    cfg["overrides"][w] = a1 if r2.random() < 0.6 else alt()
            if who in ("late", "both"):
                cfg["overrides"][nn + r2.randrange(2)] = alt()
                if not cfg["crashers"]:
                    cfg["crashers"] = [[r2.randrange(nn), r2.randrange(len(ids))]]
        # same length only: an index beyond a shorter collection would make the WORKER fail (not modelled)
        cfg["overrides"] = {k: v for k, v in cfg["overrides"].items() if len(v) == len(ids)}
        jobs.append({"kind": "online", "seed": seed, "cfg": cfg, "ext_crash_p": 0.01})
    return jobs


def _mutate(rnd, a, pool):
    b = list(a)
    for _ in range(rnd.choice([1, 1, 1, 2, 2, 3, 5])):
        k = rnd.random()
        if k < 0.3 and b:
            del b[rnd.randrange(len(b))]
        elif k < 0.6:
            b.insert(rnd.randint(0, len(b)), rnd.choice(pool))
        elif k < 0.8 and b:
            b[rnd.randrange(len(b))] = rnd.choice(pool)
        elif len(b) >= 2:
            i, j = rnd.randrange(len(b)), rnd.randrange(len(b))
            b[i], b[j] = b[j], b[i]
    return b


def message_checks(out, corr, rnd):
    """the TEXT of the collection error: the implementation's message is run through the verified checker of
    Model/CollDiff.v (names both workers; its hunks turn the first collection into the second, so every id
    that differs stands on a -/+ line: Proofs/CollDiffProofs.v) and through an independent monitor"""
    n = 400 if out.tier == "quick" else 8000
    n = int(n * out.boost)
    cases = []
    hist = {"equal": 0, "short(<=8)": 0, "long(two hunks possible)": 0, "empty side": 0, "duplicates": 0}
    for _ in range(n):
        size = rnd.choice([0, 1, 2, 3, 5, 8, 12, 20, 40] + ([70] if out.tier == "quick" else [120, 300]))
        pool = ["test_m%d.py::test_%d" % (rnd.randrange(3), rnd.randrange(60)) for _ in range(6)] + \
               ["t.py::TestK::test_p[a b-1]", "t.py::test_q[@@ -1 +1 @@]", "t.py::test_r[--- gw0]", "x"]
        if rnd.random() < 0.25:
            a = [rnd.choice(pool) for _ in range(size)]      # with repeated ids
        else:
            a = ["test_m%d.py::test_%d" % (i // 7, i) for i in range(size)]
        k = rnd.random()
        b = list(a) if k < 0.1 else [] if k < 0.15 else _mutate(rnd, a, pool)
        f, t = rnd.choice([("gw0", "gw1"), ("gw3", "gw12"), ("gw1", "gw0")])
        cases.append([a, b, f, t])
        hist["equal" if a == b else "empty side" if not a or not b else "short(<=8)" if len(a) <= 8 else "long(two hunks possible)"] += 1
        hist["duplicates"] += len(set(a)) != len(a)
    res = run_jobs("drive_pure.py", [{"kind": "colldiff_msg", "case": c} for c in cases], nproc=4)
    inputs, obs = [], []
    for c, r in zip(cases, res):
        a, b, f, t = c
        if r and r[:1] == ["exc"]:
            out.report({"kind": "collection-diff-raises", "function": "report_collection_diff"}, {"case": c, "result": r}, {"kind": "colldiff_msg", "case": c})
            continue
        inputs.append([a, b, f, t, r])
        obs.append(1)
        # monitor, independent of the model
        if (r == []) != (a == b):
            out.report({"kind": "collection-diff-none-for-different-collections" if r == [] else "collection-diff-message-for-equal-collections",
                        "function": "report_collection_diff"}, {"case": c}, {"kind": "colldiff_msg", "case": c})
        elif r:
            lines = r[0]
            if not (lines and f in lines[0] and t in lines[0] and ("--- " + f) in lines and ("+++ " + t) in lines):
                out.report({"kind": "collection-diff-does-not-name-both-workers", "function": "report_collection_diff"},
                           {"case": c, "message": lines[:6]}, {"kind": "colldiff_msg", "case": c})
            body = lines[1:]
            minus = [x[1:] for x in body if x.startswith("-") and x != "--- " + f]
            plus = [x[1:] for x in body if x.startswith("+") and x != "+++ " + t]
            from collections import Counter
            ca, cb = Counter(a), Counter(b)
            hidden = [x for x in ca if ca[x] > cb[x] and x not in minus] + [x for x in cb if cb[x] > ca[x] and x not in plus]
            if hidden:
                out.report({"kind": "collection-diff-hides-a-differing-id", "function": "report_collection_diff"},
                           {"case": c, "hidden": hidden[:5], "message": lines}, {"kind": "colldiff_msg", "case": c})
    corr.compare("report_collection_diff message accepted by the verified checker", "colldiff_msg", inputs, obs,
                 nontrivial=lambda i, o: i[0] != i[1], histogram=hist)
    out.assumptions.append("collection-diff message: test ids carry no trailing white space and no line break (the message is built line-wise and right-stripped); "
                           "difflib's choice of WHICH minimal edit to show is not modelled, the shown edit is checked")


def run(out: common.Outcome):
    rnd = random.Random(out.seed + 9)
    model = Model()
    corr = Corr(out, model, rnd)
    common.pins_changed(out, system_common.PINS)
    n = 300 if out.tier == "quick" else 10000
    n = int(n * out.boost)
    mons = ["agreed_collection", "internal_error", "stuck"]
    system_common.run_sessions(out, corr, rnd, disagree_jobs(rnd, n), mons, "sessions(disagreeing collections)",
                               nontrivial=lambda r: bool(r["cfg"]["overrides"]))
    system_common.run_sessions(out, corr, rnd, system_common.make_jobs(rnd, n // 3, "crash"), mons, "sessions(crash)",
                               nontrivial=lambda r: len(r["summary"]["dead"]) >= 1)
    # report_collection_diff: None exactly for equal collections
    pairs = []
    for _ in range(200 if out.tier == "quick" else 5000):
        a = ["t%d" % rnd.randrange(4) for _ in range(rnd.randint(0, 4))]
        b = list(a) if rnd.random() < 0.4 else ["t%d" % rnd.randrange(4) for _ in range(rnd.randint(0, 4))]
        pairs.append([a, b])
    res = run_jobs("drive_pure.py", [{"kind": "colldiff", "case": p} for p in pairs], nproc=4)
    corr.compare("report_collection_diff is None iff equal", "coll_eq", pairs, res,
                 nontrivial=lambda i, o: i[0] != i[1])
    message_checks(out, corr, rnd)
    corr.finish_incoq("C09")
    model.close()
    out.coverage["rule"] = ("sessions in which an initial worker and/or a replacement collects a permuted / partly different list of the same length, "
                            "in all arrival orders the schedules produce; non-trivial = some worker's collection differs")
    out.assumptions.append("collections of different LENGTH are not simulated at system level (an out-of-range index fails inside the worker, which the worker model does not cover)")


def replay(out, path):
    import json
    v = json.load(open(path))
    rp = (v.get("violation") or {}).get("replay")
    if isinstance(rp, dict) and rp.get("kind") == "colldiff_msg":
        r = run_jobs("drive_pure.py", [rp], nproc=1)[0]
        print(json.dumps({"case": rp["case"], "message": r}, indent=1))
        o2 = common.Outcome("C09", "quick", 0)
        a, b, f, t = rp["case"]
        model = Model()
        ok = model.batch("colldiff_msg", [[a, b, f, t, r]])[0]
        model.close()
        print("accepted by the verified checker:", ok)
        return 0 if ok == 1 else 1
    return system_common.replay(out, path)
