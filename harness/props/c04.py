"""C04 — reports reach the controller complete, once, in order, tagged with their worker."""
import os
import random
import shutil

import common
import e2e
from common import Corr, Model
from props import system_common


def run(out: common.Outcome):
    rnd = random.Random(out.seed + 4)
    model = Model()
    corr = Corr(out, model, rnd)
    common.pins_changed(out, system_common.PINS)
    n = 300 if out.tier == "quick" else 10000
    n = int(n * out.boost)
    mons = ["report_fifo", "internal_error", "stop"]      # stop: a collection error that every worker hits counts ONCE towards --maxfail
    for prof, share in (("nocrash", 0.5), ("mixed", 0.5)):
        jobs = system_common.make_jobs(rnd, int(n * share), prof)
        system_common.run_sessions(out, corr, rnd, jobs, mons, f"sessions({prof})",
                                   nontrivial=lambda r: sum(len(x) for x in r["cfg"]["reports"]) >= 2)
    corr.finish_incoq("C04")
    model.close()
    # ---- glue: real runs, distributed vs in-process
    nsuites = 2 if out.tier == "quick" else 16
    nsuites = int(nsuites * out.boost)
    runs = 0
    samples = []
    for k in range(nsuites):
        proj = e2e.new_project()
        try:
            files = e2e.make_suite(rnd, proj, with_collect_error=(k % 2 == 1))
            rc0, out0, rec0 = e2e.run_pytest(proj, ["-q", "-n0"])
            runs += 1
            base = e2e.canon_reports(rec0)
            t0 = e2e.tallies(out0)
            variants = [["-n2"], ["-n3", "--dist", rnd.choice(["loadscope", "loadfile", "worksteal", "loadgroup"])]] if out.tier == "quick" \
                else [["-n1"], ["-n2"], ["-n3"], ["-n2", "--dist", "loadscope"], ["-n2", "--dist", "loadfile"], ["-n2", "--dist", "worksteal"], ["-n3", "--dist", "loadgroup"]]
            for v in variants:
                rc, o, rec = e2e.run_pytest(proj, ["-q"] + v)
                runs += 1
                sig = {"kind": "e2e", "variant": " ".join(v)}
                if rc == "timeout":
                    out.report(dict(sig, what="timeout"), {"files": files, "tail": o[-800:]}, {"files": files, "variant": v}); continue
                cerr = [r for r in rec if r["ev"] == "collectreport"]
                if k % 2 == 1:
                    # a suite with a collection error that every worker hits: reported once, run fails
                    want = sorted((r["nodeid"], r["outcome"]) for r in rec0 if r["ev"] == "collectreport")
                    got = sorted((r["nodeid"], r["outcome"]) for r in cerr)
                    if got != want:
                        out.report(dict(sig, what="collection-errors-not-reported-exactly-once-each", inprocess=len(want), distributed=len(got)),
                                   {"inprocess": want, "distributed": got}, {"files": files, "variant": v})
                    if rc == 0:
                        out.report(dict(sig, what="collection-error-but-exit-0"), {"tail": o[-400:]}, {"files": files, "variant": v})
                else:
                    if e2e.canon_reports(rec) != base:
                        a, b = set(map(str, base)), set(map(str, e2e.canon_reports(rec)))
                        out.report(dict(sig, what="reports-differ-from-in-process-run"),
                                   {"only_inprocess": sorted(a - b)[:5], "only_distributed": sorted(b - a)[:5]}, {"files": files, "variant": v})
                    if e2e.tallies(o) != t0:
                        out.report(dict(sig, what="tallies-differ"), {"inprocess": t0, "distributed": e2e.tallies(o)}, {"files": files, "variant": v})
                    if rc != rc0:
                        out.report(dict(sig, what="exit-status-differs"), {"inprocess": rc0, "distributed": rc}, {"files": files, "variant": v})
                for r in rec:
                    if r["ev"] == "report" and (r["worker"] is None or r["worker"] != r["worker_id_attr"]):
                        out.report(dict(sig, what="report-not-tagged-with-its-worker"), r, {"files": files, "variant": v})
                        break
                # per worker: setup/call/teardown of one test stay together and in phase order
                per = {}
                for r in rec:
                    if r["ev"] == "report":
                        per.setdefault(r["worker"], []).append((r["nodeid"], r["when"]))
                for w, seq in per.items():
                    order = {"setup": 0, "call": 1, "teardown": 2}
                    last = {}
                    for nid, when in seq:
                        if nid in last and order[when] <= last[nid]:
                            out.report(dict(sig, what="phases-out-of-order"), {"worker": w, "seq": seq[:12]}, {"files": files, "variant": v})
                            break
                        last[nid] = order[when]
            samples.append({"files": files, "inprocess_tallies": t0, "exit": rc0})
        finally:
            shutil.rmtree(proj, ignore_errors=True)
    out.coverage["e2e_runs"] = runs
    out.coverage["samples"] += [{"kind": "e2e-suite", **s} for s in samples[:2]]
    out.coverage["evaluations"] += runs
    out.coverage["rule"] = ("simulated sessions (all modes) checked for per-worker FIFO delivery, tagging and once-only collect errors; plus generated real suites "
                            "(pass/fail/skip/xfail/xpass/setup and teardown errors/parametrised/classes/captured output/record_property/collection errors) run "
                            "in-process and distributed, comparing every report, the tallies and the exit status; non-trivial = at least two reports")
    out.assumptions.append("pytest's pytest_report_to_serializable/from_serializable, the terminal summary and the exit status are exercised only by the e2e runs")


replay = system_common.replay
