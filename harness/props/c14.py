"""C14 — warnings raised in workers arrive on the controller and never break the run."""
import random

import common
from common import Corr, Model, run_jobs

PINS = ["src/xdist/remote.py", "src/xdist/workermanage.py", "src/xdist/dsession.py"]


def gen(rnd):
    kind = rnd.choice(["str", "builtin", "user", "user", "ctor2", "ctorboom", "unimportable", "noattr", "undumpable"])
    importable, has_attr = True, True
    if kind == "str":
        msg = ["str", rnd.choice(["hello", "", "x: y", "a\nb"])]
        cat = rnd.choice([[], ["builtins", "UserWarning"], ["builtins", "DeprecationWarning"], ["mymod", "MyCat"]])
    elif kind == "builtin":
        msg = ["inst", "builtins", rnd.choice(["UserWarning", "DeprecationWarning", "RuntimeWarning"]), "plain", 0, rnd.randint(0, 2), ""]
        cat = []
    else:
        ck = {"ctor2": "ctor2", "ctorboom": "ctorboom"}.get(kind, "plain")
        msg = ["inst", rnd.choice(["mymod", "pkg.tests.test_w"]), rnd.choice(["MyWarning", "Other"]), ck, rnd.choice([1, 2, 3, 4]) if kind == "undumpable" else rnd.choice([0, 0, 0, 5]) if ck == "plain" else 0, rnd.randint(0, 2), ""]
        cat = []
        if kind == "unimportable":
            importable = False
        if kind == "noattr":
            has_attr = False
    return {"kind": "warn", "msg": msg, "cat": cat, "importable": importable, "has_attr": has_attr,
            "filename": rnd.choice(["/t/test_a.py", "sub/test_w.py"]), "lineno": rnd.randint(1, 99), "_k": kind}


def to_model(j, r):
    """model input from the job + what the worker actually put on the wire (text, args)"""
    text, args = r["data"]
    msg = j["msg"]
    res, cts = [], []
    def add_res(m, c):
        if m in ("builtins", "warnings"):
            res.append([m, c, 0])
        elif not j["importable"]:
            res.append([m, c, 2])
        elif not j["has_attr"]:
            res.append([m, c, 1])
        else:
            res.append([m, c, 0])
    if msg[0] == "inst":
        add_res(msg[1], msg[2])
        cts.append([msg[1], msg[2], {"ctor2": 1, "ctorboom": 2}.get(msg[3], 0)])
        m_in = ["inst", msg[1], msg[2], int(args is not None), args or [], text]
        cat = [msg[1], msg[2]] if not j["cat"] else j["cat"]
    else:
        m_in = ["str", text]
        cat = j["cat"]
    if cat and cat[:2] != (msg[1:3] if msg[0] == "inst" else None):
        add_res(cat[0], cat[1])
    return [m_in, cat, j["filename"], j["lineno"], res, cts]


def run(out: common.Outcome):
    rnd = random.Random(out.seed + 14)
    model = Model()
    corr = Corr(out, model, rnd)
    common.pins_changed(out, PINS)
    n = 300 if out.tier == "quick" else 6000
    n = int(n * out.boost)
    jobs = [gen(rnd) for _ in range(n)]
    res = run_jobs("drive_pure.py", jobs, nproc=8)
    inputs, obs = [], []
    hist = {}
    for j, r in zip(jobs, res):
        if not isinstance(r, dict):
            out.broke("driver:warn", {"job": j, "result": r}); continue
        hist[j["_k"] + ":" + r["result"][0]] = hist.get(j["_k"] + ":" + r["result"][0], 0) + 1
        inputs.append(to_model(j, r))
        o = r["result"]
        if o[0] == "err":
            o = ["err", o[1] if o[1] in ("ModuleNotFoundError", "AttributeError") else "Exception"]
        obs.append([o, r["handled"]])
        # monitors: the property itself (what the controller's event handler does with the warning)
        h = r["handled"]
        if r.get("wire") != "ok":
            out.report({"kind": "warning-event-cannot-be-sent", "case": j["_k"], "arg": j["msg"][4] if j["msg"][0] == "inst" else None},
                       {"job": j, "wire": r.get("wire")}, j)
            continue
        if h[0] != "ok":
            out.report({"kind": "worker-written-off-for-a-warning", "case": j["_k"]}, {"job": j, "handled": h}, j)
            continue
        _ok, rm, rc, fn, ln = h
        if fn != j["filename"] or ln != j["lineno"]:
            out.report({"kind": "warning-location-changed"}, {"job": j, "handled": h}, j)
        if j["msg"][0] == "inst":
            if rm[0] == "generic" and not (j["msg"][2] in rm[1] and r["data"][0] in rm[1]):
                out.report({"kind": "generic-warning-loses-class-or-text"}, {"job": j, "handled": h}, j)
            if rm[0] == "inst" and (rm[1], rm[2]) != (j["msg"][1], j["msg"][2]):
                out.report({"kind": "warning-class-changed"}, {"job": j, "handled": h}, j)
            if rm[0] == "str":
                out.report({"kind": "warning-instance-became-string"}, {"job": j, "handled": h}, j)
        elif rm != ["str", r["data"][0]]:
            out.report({"kind": "warning-text-changed"}, {"job": j, "handled": h}, j)
        # same category whenever the warning arrives in its own form (the generic form permitted for an object that
        # cannot be rebuilt is only required to carry class name and text)
        want_cat = None
        if j["msg"][0] == "inst":
            want_cat = j["cat"] or [j["msg"][1], j["msg"][2]]
        elif j["cat"]:
            want_cat = j["cat"]
        if want_cat and (want_cat[0] in ("builtins", "warnings") or (j["importable"] and j["has_attr"])) and rm[0] != "generic" and rc != want_cat:
            out.report({"kind": "warning-category-changed"}, {"job": j, "handled": h, "expected_category": want_cat}, j)
        if r["result"][0] == "ok" and h != r["result"]:
            out.report({"kind": "handler-differs-from-function-on-success"}, {"job": j, "handled": h, "direct": r["result"]}, j)
    corr.compare("serialize/unserialize_warning_message", "warn", inputs, obs,
                 nontrivial=lambda i, o: i[0][0] == "inst", histogram=hist)
    corr.finish_incoq("C14")
    model.close()
    out.coverage["rule"] = ("warning messages: plain strings, built-in categories, user classes (importable, importable without the attribute = locally "
                            "defined, unimportable module), constructors that need other arguments (TypeError) or raise something else, arguments "
                            "execnet cannot dump (opaque object, str subclass, IntEnum member, object nested in a list); the event goes through execnet.dumps/loads;  serialised with the real serialize_warning_message and rebuilt with the real unserialize_warning_message; "
                            "non-trivial = the message is a Warning instance")
    out.assumptions += ["importability / constructor behaviour on the controller are oracles of the model (fed from what the driver set up)",
                        "the write-off of the worker on an exception in process_from_remote is covered by the DSession model (UWarning false)"]


def replay(out, path):
    import json
    print(json.dumps(json.load(open(path)), indent=1)[:5000])
    return 0
