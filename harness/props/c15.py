"""C15 — a crashed test re-queued by a plugin is run again, once, and the run still ends."""
import common
from props import system_common


def run(out: common.Outcome):
    system_common.standard_run(
        out, "C15", [("crash", 1.0)], ["requeue", "exactly_once", "stuck", "internal_error", "crash_reports"],
        nontrivial=lambda r: r["cfg"]["requeue"] > 0 and len(r["summary"]["dead"]) >= 1,
        rule="load and worksteal sessions in which a pytest_handlecrashitem plugin re-queues the first 0-2 crashed tests; non-trivial = a re-queue budget and at least one death",
        modes=["load", "worksteal"])


replay = system_common.replay
