"""C03 — a worker crash costs exactly the test that was running."""
import common
from props import system_common


def run(out: common.Outcome):
    system_common.standard_run(
        out, "C03", [("crash", 1.0)], ["crash_reports", "exactly_once", "stuck", "internal_error"],
        nontrivial=lambda r: len(r["summary"]["dead"]) >= 1,
        rule="load-balancing modes with scripted crashing tests and external kills at arbitrary schedule points; non-trivial = at least one worker died",
        modes=["load", "worksteal", "loadscope", "loadfile", "loadgroup"])


replay = system_common.replay
