"""C08 — with --dist each, every environment runs every test."""
import common
from props import system_common


def run(out: common.Outcome):
    system_common.standard_run(
        out, "C08", [("nocrash", 0.4), ("crash", 0.6)], ["each", "stuck", "internal_error", "nextitem"],
        nontrivial=lambda r: len(r["cfg"]["coll"]) >= 2,
        rule="--dist each sessions, 1-3 workers with spec classes, single and multiple crashes; non-trivial = at least two tests",
        modes=["each"])


replay = system_common.replay
