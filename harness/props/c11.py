"""C11 — stop conditions halt dispatch and end the run as interrupted."""
import common
from props import system_common


def kbd_jobs(rnd):
    """half of the controller histories: tests that raise KeyboardInterrupt (the worker exits with status 2) are frequent,
    other faults rare — the stop decision taken while other workers are short of work"""
    if rnd.random() < 0.5:
        return {"kbd_p": rnd.choice([0.1, 0.2, 0.3]), "fault_p": 0.01, "mode": rnd.choice(["load", "worksteal", "loadscope", "loadgroup"])}
    return {}


def run(out: common.Outcome):
    system_common.standard_run(
        out, "C11", [("mixed", 1.0)], ["stop", "internal_error", "stuck"],
        nontrivial=lambda r: r["cfg"]["maxfail"] > 0 or bool(r["cfg"]["stops"]),
        rule="all modes with failing tests, --maxfail 0/1/2, tests that set the worker-side stop request, collection errors, crashes after the stop decision; non-trivial = a stop condition is configured",
        modes=None, extra_corr=system_common.ctl_extra(['stop', 'internal_error'], quick_n=500, thorough_n=12000, job_extra=kbd_jobs))


replay = system_common.replay
