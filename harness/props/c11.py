"""C11 — stop conditions halt dispatch and end the run as interrupted."""
import common
from props import system_common


def run(out: common.Outcome):
    system_common.standard_run(
        out, "C11", [("mixed", 1.0)], ["stop", "internal_error", "stuck"],
        nontrivial=lambda r: r["cfg"]["maxfail"] > 0 or bool(r["cfg"]["stops"]),
        rule="all modes with failing tests, --maxfail 0/1/2, tests that set the worker-side stop request, collection errors, crashes after the stop decision; non-trivial = a stop condition is configured",
        modes=None)


replay = system_common.replay
