"""C10 — worker restarts are bounded by the restart budget."""
import common
from props import system_common


def allcrash_jobs(rnd, prof, tier):
    n = 80 if tier == "quick" else 3000
    return system_common.make_jobs(rnd, n, "crash", allcrash=True)


def budget_default(out):
    """get_default_max_worker_restart: explicit value, else 4 x workers; model vs implementation,
    and the property's reading 'by default four times the number of workers'"""
    import random
    from common import Corr, Model, run_jobs
    rnd = random.Random(out.seed + 1010)
    cases = [[o, np] for o in (None, 0, 1, 3, 7) for np in (None, 0, 1, 2, 5)]
    res = run_jobs("drive_pure.py", [{"kind": "default_budget", "case": c} for c in cases], nproc=2)
    model = Model()
    corr = Corr(out, model, rnd)
    corr.compare("get_default_max_worker_restart", "default_budget", [[[] if o is None else [o], [] if np is None else [np]] for o, np in cases], res)
    for (o, np), r in zip(cases, res):
        if o is None and not np and r == []:
            out.report({"kind": "restart-budget-unset", "numprocesses": "unset", "option": "unset"},
                       {"maxworkerrestart": o, "numprocesses": np, "budget": None}, {"maxworkerrestart": o, "numprocesses": np})
        elif o is not None and r != [o]:
            out.report({"kind": "explicit-budget-ignored"}, {"case": [o, np], "got": r}, {"case": [o, np]})
        elif o is None and np and r != [4 * np]:
            out.report({"kind": "default-budget-not-4n"}, {"case": [o, np], "got": r}, {"case": [o, np]})
    model.close()


def run(out: common.Outcome):
    budget_default(out)
    system_common.standard_run(
        out, "C10", [("crash", 1.0)], ["restart_budget", "stuck", "internal_error"],
        nontrivial=lambda r: len(r["summary"]["dead"]) >= 1,
        rule="all modes, budgets unset/0/1/2/4/4n, crashing tests and kills, plus suites in which every test kills its worker; non-trivial = at least one death",
        modes=None, extra_jobs=allcrash_jobs, extra_corr=system_common.ctl_extra(['restart_budget', 'internal_error']))


replay = system_common.replay
