"""C10 — worker restarts are bounded by the restart budget."""
import common
from props import system_common


def allcrash_jobs(rnd, prof, tier):
    n = 80 if tier == "quick" else 3000
    return system_common.make_jobs(rnd, n, "crash", allcrash=True)


def run(out: common.Outcome):
    system_common.standard_run(
        out, "C10", [("crash", 1.0)], ["restart_budget", "stuck", "internal_error"],
        nontrivial=lambda r: len(r["summary"]["dead"]) >= 1,
        rule="all modes, budgets unset/0/1/2/4/4n, crashing tests and kills, plus suites in which every test kills its worker; non-trivial = at least one death",
        modes=None, extra_jobs=allcrash_jobs)


replay = system_common.replay
