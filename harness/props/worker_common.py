"""shared by C05 and C07: worker-level correspondence + monitors"""
import random

import common
from common import Corr, Model, run_jobs
import gen_worker

PINS = ["src/xdist/remote.py"]


def run_worker_corr(out, corr, rnd, n_cases, tag):
    cases = [gen_worker.gen_case(rnd, wf=(k % 5 != 4)) for k in range(n_cases)]
    for c in cases:
        c["trace"] = True
    res = run_jobs("drive_worker.py", cases, nproc=14)
    inputs = [gen_worker.model_input(c) for c in cases]
    hist = {"ops": 0, "deliver": 0, "steal_cmds": 0, "steal_success": 0, "steal_refused": 0, "exited": 0,
            "stopped_early": 0, "malformed_stream": 0, "impl_exceptions": 0}
    nontrivial_flags = []
    for c, r in zip(cases, res):
        hist["ops"] += len(c["ops"])
        hist["deliver"] += sum(1 for o in c["ops"] if isinstance(o, list))
        hist["steal_cmds"] += sum(1 for o in c["ops"] if isinstance(o, list) and o[1][0] == "steal")
        if not c["wf"]:
            hist["malformed_stream"] += 1
        if r and r[0] == "exc" or (r and isinstance(r[0], str)):
            hist["impl_exceptions"] += 1
            out.report({"kind": "worker-exception", "exc": r[1] if len(r) > 1 else "?"}, {"case": c, "result": r}, c)
            nontrivial_flags.append(False)
            continue
        fin = r[-1]
        reps = [e[1] for e in fin[3] if e[0] == "unscheduled"]
        hist["steal_success"] += sum(1 for x in reps if x)
        hist["steal_refused"] += sum(1 for x in reps if not x)
        hist["exited"] += fin[4]
        nontrivial_flags.append(len(fin[2]) >= 2 or bool(reps))
        for sig, detail in gen_worker.monitor(c, r):
            out.report(sig, {"detail": detail, "case": c}, c)
    # ---- race search (implementation only, not compared with the model): the same streams with the main thread
    # preemptible at EVERY full lock release, not only at observable progress. On code whose shared state is only
    # touched inside lock sections this explores nothing new; it is what turns a broken correspondence caused by a
    # narrowed/split critical section into a concrete schedule.
    fine = [gen_worker.gen_case(rnd, wf=True) for _ in range(max(50, n_cases // 3))]
    for c in fine:
        c["trace"] = True
        c["fine"] = True
    fres = run_jobs("drive_worker.py", fine, nproc=14)
    asleep = 0
    for c, r in zip(fine, fres):
        if not r or r[0] == "exc" or isinstance(r[0], str):
            out.report({"kind": "worker-exception", "exc": r[1] if r and len(r) > 1 else "?", "fine": True}, {"case": c, "result": r}, c)
            continue
        tail = r[-1]
        if isinstance(tail, dict):
            if tail["asleep"] and tail["queue"]:
                asleep += 1
                out.report({"kind": "worker-asleep-with-a-non-empty-queue"}, {"queue": tail["queue"], "event_flag": tail["flag"], "case": c}, c)
            r = r[:-1]
        for sig, detail in gen_worker.monitor(c, r):
            out.report(dict(sig, fine=True), {"detail": detail, "case": c}, c)
    out.coverage.setdefault("race_search", {})[tag] = {"cases": len(fine), "asleep_with_work": asleep}
    out.coverage["evaluations"] = out.coverage.get("evaluations", 0) + len(fine)
    flags = iter(nontrivial_flags)
    ntmap = {common.to_line(i): f for i, f in zip(inputs, nontrivial_flags)}
    corr.compare(tag, "worker_trace", inputs, res, nontrivial=lambda i, o: ntmap.get(common.to_line(i), False),
                 histogram=hist, incoq_sample=30)
    return cases, res
