"""C06 — tests of one group run on one worker, together and in order."""
import common
from props import system_common


ATOMS = ["pkg", "test_m.py", "TestK", "Inner", "test_f", "[a]", "[a::b]", "[x@y]", "[1-2]", "@", "::", "]", "[", "grp", "g1", "a b", ".", "/"]


def split_checks(out, tier):
    """the three _split_scope functions on adversarial ids: model vs implementation, plus an
    independent oracle for well-formed ids (what the documentation promises)"""
    import random
    from common import Corr, Model, run_jobs
    rnd = random.Random(out.seed + 606)
    n = 600 if tier == "quick" else 20000
    cases = []
    for _ in range(n):
        kind = rnd.choice(["loadscope", "loadfile", "loadgroup"])
        r = rnd.random()
        if r < 0.5:      # well-formed: path::[Class::]*func[param][@group]
            path = "/".join(rnd.choice(["pkg", "sub", "test_m.py", "t@x.py"]) for _ in range(rnd.randint(1, 2)))
            classes = [rnd.choice(["TestK", "Inner"]) for _ in range(rnd.choice([0, 0, 1, 2]))]
            func = rnd.choice(["test_f", "test_g"]) + rnd.choice(["", "[a]", "[1-2]", "[x@y]", "[alice@example.org]", "[a::b]"])
            nid = "::".join([path] + classes + [func])
            grp = rnd.choice([None, "grp", "g1", "a b", "a]b"]) if kind == "loadgroup" else None
            if grp:
                nid += "@" + grp
            exp = None
            if kind == "loadfile":
                exp = path
            elif kind == "loadscope":
                exp = "::".join([path] + classes)
            elif kind == "loadgroup":
                exp = grp if grp else nid
            cases.append((kind, nid, exp))
        else:            # adversarial soup
            nid = "".join(rnd.choice(ATOMS) for _ in range(rnd.randint(0, 6)))
            cases.append((kind, nid, None))
    res = run_jobs("drive_sched.py", [{"kind": "split", "cases": [[k, s] for k, s, _ in cases[i:i + 200]]} for i in range(0, len(cases), 200)], nproc=6)
    flat = [x for chunk in res for x in (chunk if isinstance(chunk, list) else [])]
    model = Model()
    corr = Corr(out, model, rnd)
    corr.compare("_split_scope (loadscope/loadfile/loadgroup)", "split", [[k, s] for k, s, _ in cases], flat,
                 nontrivial=lambda i, o: o != i[1])
    for (k, nid, exp), got in zip(cases, flat):
        if exp is not None and got != exp:
            if k == "loadscope" and "[" in nid and "::" in nid.split("[", 1)[1]:
                cls = "param-id-with-::"
            elif k == "loadgroup" and exp != nid and "]" in exp:
                cls = "group-name-with-]"
            elif k == "loadgroup" and exp == nid and "@" in nid:
                cls = "unmarked-id-with-@"
            else:
                cls = "other"
            out.report({"kind": "group-key-wrong", "function": k, "class": cls},
                       {"nodeid": nid, "expected": exp, "got": got}, {"function": k, "nodeid": nid})
    corr.finish_incoq("C06-split")
    model.close()


def run(out: common.Outcome):
    split_checks(out, out.tier)
    system_common.standard_run(
        out, "C06", [("nocrash", 0.5), ("crash", 0.5)], ["groups", "exactly_once", "internal_error"],
        nontrivial=lambda r: len(r["cfg"]["coll"]) >= 3,
        rule="loadscope/loadfile/loadgroup sessions over collections with file, class and xdist_group structure, with and without crashes; non-trivial = at least three tests",
        modes=["loadscope", "loadfile", "loadgroup"])


replay = system_common.replay
