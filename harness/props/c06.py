"""C06 — tests of one group run on one worker, together and in order."""
import common
from props import system_common


def run(out: common.Outcome):
    system_common.standard_run(
        out, "C06", [("nocrash", 0.5), ("crash", 0.5)], ["groups", "exactly_once", "internal_error"],
        nontrivial=lambda r: len(r["cfg"]["coll"]) >= 3,
        rule="loadscope/loadfile/loadgroup sessions over collections with file, class and xdist_group structure, with and without crashes; non-trivial = at least three tests",
        modes=["loadscope", "loadfile", "loadgroup"])


replay = system_common.replay
