"""C06 — tests of one group run on one worker, together and in order."""
import common
from props import system_common


ATOMS = ["pkg", "test_m.py", "TestK", "Inner", "test_f", "[a]", "[a::b]", "[x@y]", "[1-2]", "@", "::", "]", "[", "grp", "g1", "a b", ".", "/"]


def split_checks(out, tier):
    """the three _split_scope functions on adversarial ids: model vs implementation, plus an
    independent oracle for well-formed ids (what the documentation promises)"""
    import random
    from common import Corr, Model, run_jobs
    rnd = random.Random(out.seed + 606)
    n = 600 if tier == "quick" else 20000
    cases = []
    for _ in range(n):
        kind = rnd.choice(["loadscope", "loadfile", "loadgroup"])
        r = rnd.random()
        if r < 0.5:      # well-formed: path::[Class::]*func[param][@group]
            path = "/".join(rnd.choice(["pkg", "sub", "test_m.py", "t@x.py"]) for _ in range(rnd.randint(1, 2)))
            classes = [rnd.choice(["TestK", "Inner"]) for _ in range(rnd.choice([0, 0, 1, 2]))]
            func = rnd.choice(["test_f", "test_g"]) + rnd.choice(["", "[a]", "[1-2]", "[x@y]", "[alice@example.org]", "[a::b]"])
            nid = "::".join([path] + classes + [func])
            grp = rnd.choice([None, "grp", "g1", "a b", "a]b"]) if kind == "loadgroup" else None
            if grp:
                nid += "@" + grp
            exp = None
            if kind == "loadfile":
                exp = path
            elif kind == "loadscope":
                exp = "::".join([path] + classes)
            elif kind == "loadgroup":
                exp = grp if grp else nid
            cases.append((kind, nid, exp))
        else:            # adversarial soup
            nid = "".join(rnd.choice(ATOMS) for _ in range(rnd.randint(0, 6)))
            cases.append((kind, nid, None))
    res = run_jobs("drive_sched.py", [{"kind": "split", "cases": [[k, s] for k, s, _ in cases[i:i + 200]]} for i in range(0, len(cases), 200)], nproc=6)
    flat = [x for chunk in res for x in (chunk if isinstance(chunk, list) else [])]
    model = Model()
    corr = Corr(out, model, rnd)
    corr.compare("_split_scope (loadscope/loadfile/loadgroup)", "split", [[k, s] for k, s, _ in cases], flat,
                 nontrivial=lambda i, o: o != i[1])
    for (k, nid, exp), got in zip(cases, flat):
        if exp is not None and got != exp:
            if k == "loadscope" and "[" in nid and "::" in nid.split("[", 1)[1]:
                cls = "param-id-with-::"
            elif k == "loadgroup" and exp != nid and "]" in exp:
                cls = "group-name-with-]"
            elif k == "loadgroup" and exp == nid and "@" in nid:
                cls = "unmarked-id-with-@"
            else:
                cls = "other"
            out.report({"kind": "group-key-wrong", "function": k, "class": cls},
                       {"nodeid": nid, "expected": exp, "got": got}, {"function": k, "nodeid": nid})
    # ---- the worker's half: the id a marked test gets, and the key the controller reads back from it
    gm = []
    for _ in range(300 if tier == "quick" else 8000):
        path = "/".join(rnd.choice(["pkg", "sub", "test_m.py", "svc@v2", "t@x.py", "a]b"]) for _ in range(rnd.randint(1, 3)))
        func = rnd.choice(["test_f", "test_g"]) + rnd.choice(["", "", "[a]", "[x@y]", "[alice@example.org]", "[a::b]", "[p]q"])
        nid = "::".join([path] + [rnd.choice(["TestK", "Inner"]) for _ in range(rnd.choice([0, 0, 1]))] + [func])
        r = rnd.random()
        g = rnd.choice(["grp", "g1", "a b", "db", "default", "x.y", "a]b", "u@v"])
        mark = [] if r < 0.3 else [[g], []] if r < 0.6 else [[], [g]] if r < 0.8 else [[], []] if r < 0.9 else [[g, "other"], ["kw"]]
        gm.append([int(rnd.random() < 0.85), nid, mark])
    gres = run_jobs("drive_sched.py", [{"kind": "groupmark", "cases": gm[i:i + 200]} for i in range(0, len(gm), 200)], nproc=4)
    gflat = [x for chunk in gres for x in (chunk if isinstance(chunk, list) else [])]
    if len(gflat) != len(gm):
        out.broke("driver:groupmark", [c for c in gres if not (isinstance(c, list) and c and isinstance(c[0], list))][:1])
        gm = gm[:len(gflat)]
    corr.compare("pytest_collection_modifyitems + _split_scope (loadgroup, worker and controller halves)", "groupmark", gm, gflat,
                 nontrivial=lambda i, o: bool(i[2]) and bool(i[0]))
    for (lg, nid, mark), got in zip(gm, gflat):
        if not isinstance(got, list):
            continue
        want_group = None
        if lg and mark:
            want_group = mark[0][0] if mark[0] else (mark[1][0] if mark[1] else "default")
        if want_group is not None and "@" not in want_group and "]" not in want_group:
            if got[1] != want_group:      # the documented contract: tests marked with one group share one key
                out.report({"kind": "group-key-wrong", "function": "worker-mark+loadgroup", "class": "marked-test-not-keyed-by-its-group"},
                           {"nodeid": nid, "mark": mark, "worker_id": got[0], "key": got[1], "expected": want_group},
                           {"function": "groupmark", "case": [lg, nid, mark]})
        if not lg or not mark:
            if got[0] != nid:
                out.report({"kind": "unmarked-id-changed"}, {"nodeid": nid, "got": got[0]}, {"function": "groupmark", "case": [lg, nid, mark]})
    corr.finish_incoq("C06-split")
    model.close()


def interleaved_crash_jobs(rnd, prof, tier):
    """groups whose members are NOT contiguous in the collection (module-level functions around a class; alternating
    xdist_groups), small units, and workers dying inside them: a replacement joins with nothing while the front of the
    work queue is the one-test remainder of a crashed group followed by an interleaving group"""
    if prof != "crash":
        return []
    import drive_sim
    jobs = []
    for _ in range(60 if tier == "quick" else 1500):
        seed = rnd.randrange(1 << 30)
        r2 = __import__("random").Random(seed)
        mode = r2.choice(["loadscope", "loadgroup"])
        nb = r2.randint(4, 8)
        nc = r2.randint(2, 3)
        if mode == "loadscope":
            ids = ["m.py::test_a"] + ["m.py::TestD::t%d" % i for i in range(nc)] + ["m.py::test_b"] + ["n.py::u%d" % i for i in range(nb)]
        else:
            ids = []
            for i in range(nc + 1):
                ids += ["m.py::a%d@ga" % i, "m.py::b%d@gb" % i]
            ids = ids[:-1] + ["n.py::u%d@gn" % i for i in range(nb)]
        if r2.random() < 0.4:
            # one LARGE group dying early: the remainder (several tests) must come back whole and in collection order
            mode = r2.choice(["loadscope", "loadfile", "loadgroup"])
            sfx = "@big" if mode == "loadgroup" else ""
            ids = ["m.py::TestBig::t%02d%s" % (i, sfx) for i in range(r2.randint(5, 9))] + \
                  ["n.py::u%d%s" % (i, "@gn" if mode == "loadgroup" else "") for i in range(r2.randint(2, 5))]
        cfg = drive_sim.make_cfg(r2, {"profile": "crash", "mode": mode})
        small = [i for i, t in enumerate(ids) if t.startswith("m.py")][:4]
        cfg.update({"mode": mode, "numnodes": 2, "coll": ids, "overrides": {}, "collreports": {}, "stops": [], "maxfail": 0, "requeue": 0,
                    "max_restart": 8, "reports": [[0] for _ in ids], "durs": [0 for _ in ids], "specs": [0, 0],
                    "crashers": [[r2.randrange(2), r2.choice(small)] for _ in range(r2.randint(1, 2))]})
        jobs.append({"kind": "online", "seed": seed, "cfg": cfg, "ext_crash_p": 0.0})
    return jobs


def run(out: common.Outcome):
    split_checks(out, out.tier)
    system_common.standard_run(
        out, "C06", [("nocrash", 0.5), ("crash", 0.5)], ["groups", "exactly_once", "internal_error"],
        nontrivial=lambda r: len(r["cfg"]["coll"]) >= 3,
        rule="loadscope/loadfile/loadgroup sessions over collections with file, class and xdist_group structure, with and without crashes; non-trivial = at least three tests",
        modes=["loadscope", "loadfile", "loadgroup"], extra_jobs=interleaved_crash_jobs)


replay = system_common.replay
