"""C02 — the distributed session always terminates (no controller/worker stand-off)."""
import common
from props import system_common


def worker_half(out, corr, rnd):
    """the worker's half of termination: under every interleaving of its two threads a worker that has been given work
    (or the shutdown signal) is never left asleep; includes the fine-grained race search"""
    from props import worker_common
    n = int((500 if out.tier == "quick" else 15000) * out.boost)
    worker_common.run_worker_corr(out, corr, rnd, n, "worker(TestQueue+WorkerInteractor, lock-section interleavings)")


def run(out: common.Outcome):
    system_common.standard_run(
        out, "C02", [("nocrash", 0.3), ("crash", 0.7)], ["stuck", "internal_error"],
        nontrivial=lambda r: len(r["cfg"]["coll"]) >= 2,
        rule="all six modes, crashes at arbitrary points (scripted crashing tests and external kills) within the restart budget; a run is stuck when no label is enabled and the session is not over; non-trivial = at least two tests",
        modes=None, extra_corr=worker_half)


replay = system_common.replay
