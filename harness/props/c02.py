"""C02 — the distributed session always terminates (no controller/worker stand-off)."""
import common
from props import system_common


def run(out: common.Outcome):
    system_common.standard_run(
        out, "C02", [("nocrash", 0.3), ("crash", 0.7)], ["stuck", "internal_error"],
        nontrivial=lambda r: len(r["cfg"]["coll"]) >= 2,
        rule="all six modes, crashes at arbitrary points (scripted crashing tests and external kills) within the restart budget; a run is stuck when no label is enabled and the session is not over; non-trivial = at least two tests",
        modes=None)


replay = system_common.replay
