"""C13 — distribution is decided by the documented option rules and never recurses."""
import random

import common
from common import Corr, Model, run_jobs

PINS = ["src/xdist/plugin.py", "src/xdist/workermanage.py", "src/xdist/remote.py", "src/xdist/looponfail.py"]

N_VALUES = [None, "0", "1", "2", "3", "-1", "auto", "logical"]
MP_VALUES = [None, "0", "1", "2", "5"]
DIST_VALUES = [None, "no", "each", "load", "loadscope", "loadfile", "loadgroup", "worksteal"]
TX_VALUES = [[], ["popen"], ["2*popen"], ["popen", "3*popen//chdir=x"], ["0*popen"], ["ssh=host//chdir=c"]]
ENV_VALUES = [None, "3", "0", "abc", "", "1"]


def build_args(c):
    args = []
    if c["n"] is not None:
        args += ["-n", c["n"]]
    if c["mp"] is not None:
        args += ["--maxprocesses", c["mp"]]
    if c["dist"] is not None:
        args += ["--dist", c["dist"]]
    if c["d"]:
        args += ["-d"]
    for t in c["tx"]:
        args += ["--tx", t]
    if c["pdb"]:
        args += ["--pdb"]
    if c["co"]:
        args += ["--collect-only"]
    if c["f"]:
        args += ["-f"]
    return args


def gen_case(rnd, worker=False):
    c = {
        "n": rnd.choice(N_VALUES), "mp": rnd.choice(MP_VALUES), "dist": rnd.choice(DIST_VALUES),
        "d": rnd.random() < 0.25, "tx": rnd.choice(TX_VALUES), "pdb": rnd.random() < 0.3,
        "co": rnd.random() < 0.25, "f": rnd.random() < 0.15,
    }
    args = build_args(c)
    addopts = None
    if rnd.random() < 0.3:  # move a random part of the options into addopts
        c2 = {"n": rnd.choice(N_VALUES), "mp": None, "dist": rnd.choice(DIST_VALUES), "d": rnd.random() < 0.3,
              "tx": rnd.choice(TX_VALUES[:3]), "pdb": False, "co": False, "f": rnd.random() < 0.1}
        addopts = " ".join(build_args(c2))
    return {"args": args, "env": rnd.choice(ENV_VALUES), "worker": worker, "addopts": addopts}


CORE = [  # the documented rules, one case each (always run)
    ["-n", "0"], ["-n", "0", "--dist", "load", "--tx", "popen"], ["-n", "3"], ["-n", "3", "--maxprocesses", "2"],
    ["-n", "3", "--dist", "worksteal"], ["-n", "2", "--dist", "each"], ["--tx", "3*popen", "--dist", "load"],
    ["--dist", "load"], ["--tx", "popen"], ["-n", "2", "--pdb"], ["-n", "auto", "--pdb"], ["-n", "logical", "--pdb"],
    ["-n", "2", "--collect-only"], ["-n", "2", "--collect-only", "--pdb"], ["-d", "--tx", "2*popen"], ["-f"],
    ["-f", "--pdb"], ["-n", "auto"], ["-n", "auto", "--maxprocesses", "2"], ["-n", "logical", "--dist", "loadgroup"],
    ["-d"], ["-n", "-1"], ["--dist", "load", "--tx", "popen", "--pdb"],
]

TX_ALPHABET = ["popen", "*", "2", "3", "0", "-1", "+2", " 2", "2 ", "1_0", "_1", "ssh=h", "//chdir=x", "p", "", "**", "2*", "*popen"]
INT_ALPHABET = list("0123456789") + ["_", "+", "-", " ", "\t", "\n", "a", ".", "e", "\x1f", "\x0b"]


def run(out: common.Outcome):
    rnd = random.Random(out.seed)
    n_opts = 350 if out.tier == "quick" else 6000
    n_opts = int(n_opts * out.boost)
    n_small = 400 if out.tier == "quick" else 6000
    model = Model()
    corr = Corr(out, model, rnd)
    common.pins_changed(out, PINS)

    # ---- option handling through the real _prepareconfig + hook implementations
    cases = [{"args": a, "env": None, "worker": False, "addopts": None} for a in CORE]
    cases += [{"args": a, "env": "4", "worker": True, "addopts": None} for a in CORE]
    cases += [gen_case(rnd, worker=(k % 4 == 3)) for k in range(n_opts)]
    jobs = [{"kind": "real_auto"}] + [{"kind": "options", "case": c} for c in cases]
    res = run_jobs("drive_options.py", jobs, nproc=14)
    auto_detected = res[0] if isinstance(res[0], int) else 1
    inputs_m, obs_m, inputs_w, obs_w = [], [], [], []
    hist = {"controller": 0, "worker": 0, "usage_error": 0, "looponfail": 0, "distributed": 0, "plain": 0,
            "parse_error": 0, "addopts": 0}
    for c, r in zip(cases, res[1:]):
        if not (isinstance(r, list) and len(r) == 2 and isinstance(r[0], list) and r[0] and r[0][0] != "parse-error"):
            if isinstance(r, list) and r and r[0] == "parse-error":
                hist["parse_error"] += 1
                continue
            out.broke("driver:options", {"case": c, "result": r})
            continue
        pre, post = r
        env = c["env"]
        auto = auto_detected
        if env:
            try:
                auto = int(env)
            except ValueError:
                pass
        if c["addopts"]:
            hist["addopts"] += 1
        if post[0] == "err":
            hist["usage_error"] += 1
            post = ["err", "UsageError"]
        elif post[0] == "looponfail":
            hist["looponfail"] += 1
        elif post[0] == "ok":
            hist["distributed" if post[3] else "plain"] += 1
        if c["worker"]:
            hist["worker"] += 1
            inputs_w.append([auto, pre]); obs_w.append(post)
        else:
            hist["controller"] += 1
            inputs_m.append([auto, pre]); obs_m.append(post)
    nontriv = lambda i, o: i[1][0] != [] or i[1][4] != [] or i[1][2] != 0
    corr.compare("options(controller)", "options", inputs_m, obs_m, nontrivial=nontriv, histogram=hist)
    corr.compare("options(worker: setup_config first)", "worker_options", inputs_w, obs_w, nontrivial=nontriv)

    # monitor (violation search on the implementation): a worker must never distribute
    for i, o in zip(inputs_w, obs_w):
        if o[0] != "ok" or o[2] or o[3] or o[1][5] or o[1][7]:
            out.report({"kind": "worker-distributes"}, {"pre": i, "post": o}, {"input": i})
    for i, o in zip(inputs_m, obs_m):
        pre = i[1]
        if o[0] == "ok":
            if pre[0] == [0] and (o[2] or o[3]):
                out.report({"kind": "n0-distributes"}, {"pre": pre, "post": o}, {"input": i})
            if pre[6] and o[2]:
                out.report({"kind": "collectonly-installs-dsession"}, {"pre": pre, "post": o}, {"input": i})
            if o[3] and pre[5] and not pre[6]:
                out.report({"kind": "pdb-with-distribution-accepted"}, {"pre": pre, "post": o}, {"input": i})
            # -nK means K local workers (capped by --maxprocesses), whatever --tx says (seeded C13-6)
            np, mp = pre[0], pre[1]
            if isinstance(np, list) and np and isinstance(np[0], int) and np[0] >= 1 and (mp == [] or (isinstance(mp, list) and mp and mp[0] >= 1)):
                want = ["popen"] * (min(np[0], mp[0]) if mp else np[0])
                if o[1][4] != want:
                    out.report({"kind": "n-k-does-not-mean-k-local-workers"}, {"pre": pre, "post": o, "expected_tx": want}, {"input": i})
        elif o[0] == "err":
            # the only documented rejection: --pdb (or -f with --pdb) together with a run that WOULD be distributed.
            # No execution environment (no -n / -n0, no --tx) means no distribution, whatever --dist says.
            np, tx, pdb, co, loop = pre[0], pre[4], pre[5], pre[6], pre[7]
            if np == []:
                no_env = not tx                                   # no -n: the --tx list is the environment
            elif isinstance(np, str):
                no_env = bool(pdb)                                # -n auto/logical with --pdb means 0
            else:
                no_env = np[0] <= 0                               # -n0 (and a negative count) starts no worker
            if pdb and no_env and not loop:
                out.report({"kind": "pdb-rejected-although-nothing-is-distributed"}, {"pre": pre, "post": o}, {"input": i})
            elif pdb and co and not loop:
                # --collect-only never starts workers, so there is no distribution for --pdb to clash with (seeded C13-5)
                out.report({"kind": "pdb-rejected-although-collect-only-never-distributes"}, {"pre": pre, "post": o}, {"input": i})
            if not pdb:
                out.report({"kind": "rejected-without-pdb"}, {"pre": pre, "post": o}, {"input": i})

    # ---- parse_tx_spec_config / int() / auto default on generated strings
    txs = [[rnd.choice(["popen", "2*popen", "ssh=x//chdir=y", "0*popen", "0*ssh=h"]) for _ in range(rnd.randint(0, 3))] for _ in range(n_small // 2)]
    txs += [["".join(rnd.choice(TX_ALPHABET) for _ in range(rnd.randint(0, 4))) for _ in range(rnd.randint(0, 3))]
            for _ in range(n_small // 2)]
    ints = ["".join(rnd.choice(INT_ALPHABET) for _ in range(rnd.randint(0, 6))) for _ in range(n_small)]
    autos = [[rnd.choice([None, "", "3", "0", "x", "-2", " 7 ", "1_0"]), rnd.choice([0, 1, 2, 16])] for _ in range(60)]
    jobs = ([{"kind": "parse_tx", "case": t} for t in txs] + [{"kind": "py_int", "case": s} for s in ints]
            + [{"kind": "auto_default", "case": a} for a in autos])
    res = run_jobs("drive_options.py", jobs, nproc=8)
    r_tx, r_int, r_auto = res[: len(txs)], res[len(txs): len(txs) + len(ints)], res[len(txs) + len(ints):]
    corr.compare("parse_tx_spec_config", "parse_tx", txs, r_tx, nontrivial=lambda i, o: any("*" in x for x in i))
    # monitor: 'N*spec' expands to N workers; a list that expands to NO worker is rejected (UsageError), never accepted as []
    import re as _re
    for t, o in zip(txs, r_tx):
        if all(_re.fullmatch(r"\d+\*[a-z=/]+", x) or _re.fullmatch(r"[a-z=/]+", x) for x in t):
            n = sum(int(x.split("*")[0]) if "*" in x else 1 for x in t)
            if n == 0 and o != ["err", "UsageError"]:
                out.report({"kind": "tx-list-without-any-worker-accepted"}, {"tx": t, "result": o}, {"tx": t})
            if n > 0 and isinstance(o, list) and o and o[0] != "err" and len(o) != n and not (len(o) == 2 and o[0] == "ok" and len(o[1]) == n):
                out.report({"kind": "tx-multiplier-expansion-wrong"}, {"tx": t, "result": o, "expected_workers": n}, {"tx": t})
    corr.compare("int(str)", "py_int", ints, r_int, nontrivial=lambda i, o: o != [])
    corr.compare("auto_num_workers default", "auto_default",
                 [[[] if e is None else [e], [c]] for e, c in autos], r_auto)
    corr.finish_incoq("C13")
    model.close()
    out.coverage["rule"] = ("option combinations drawn from the lattice -n x --maxprocesses x --dist x -d x --tx x --pdb x "
                            "--collect-only x -f x PYTEST_XDIST_AUTO_NUM_WORKERS x addopts, plus one case per documented rule; "
                            "non-trivial = any of -n/--tx/--dist given; distinct = distinct parsed option records")
    out.assumptions += ["argparse/pytest option parsing is pytest's (model input is the parsed option record)",
                        "Python int() modelled for ASCII input only"]


def replay(out, path):
    import json
    v = json.load(open(path))
    print(json.dumps(v, indent=1)[:4000])
    return 0
