"""C05 — each worker runs its tests in assignment order and announces the true next test."""
import random

import common
from common import Corr, Model
from props import worker_common


def run(out: common.Outcome):
    rnd = random.Random(out.seed + 5)
    model = Model()
    corr = Corr(out, model, rnd)
    common.pins_changed(out, worker_common.PINS)
    n = 1500 if out.tier == "quick" else 40000
    n = int(n * out.boost)
    worker_common.run_worker_corr(out, corr, rnd, n, "worker(TestQueue+WorkerInteractor, lock-section interleavings)")
    corr.finish_incoq("C05")
    model.close()
    out.coverage["rule"] = ("command streams (run/steal/shutdown/end; 80% well-formed, 20% malformed with repeated indices) "
                            "interleaved at lock-section granularity with receiver and main-thread steps of the real "
                            "WorkerInteractor under a cooperative scheduler; per-step observation (queue, flag, (item,nextitem) "
                            "calls, events) compared with the model; non-trivial = at least two tests run or a steal answered")
    out.assumptions += ["RLock mutual exclusion and Event semantics (instrumented stand-ins yield only at full release / blocked wait)",
                        "test execution is a stub that emits scripted reports"]


def replay(out, path):
    import json
    print(json.dumps(json.load(open(path)), indent=1)[:6000])
    return 0
