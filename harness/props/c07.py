"""C07 — work-stealing withdrawals are all-or-nothing and exactly accounted.
Worker side: lock-section interleavings of the real WorkerInteractor/TestQueue against Model/Worker.v;
controller side: whole worksteal sessions against Model/System.v with the steal-protocol monitors."""
import random

import common
from common import Corr, Model
from props import system_common, worker_common


def run(out: common.Outcome):
    rnd = random.Random(out.seed + 7)
    model = Model()
    corr = Corr(out, model, rnd)
    common.pins_changed(out, system_common.PINS)
    n = 700 if out.tier == "quick" else 30000
    n = int(n * out.boost)
    worker_common.run_worker_corr(out, corr, rnd, n, "worker(steal under concurrent get, lock-section interleavings)")
    ns = 260 if out.tier == "quick" else 10000
    ns = int(ns * out.boost)
    for prof, share in (("nocrash", 0.5), ("crash", 0.5)):
        jobs = system_common.make_jobs(rnd, int(ns * share), prof, modes=["worksteal"])
        system_common.run_sessions(out, corr, rnd, jobs,
                                   ["steal_protocol", "command_stream", "exactly_once", "internal_error", "stuck"],
                                   f"worksteal sessions({prof})",
                                   nontrivial=lambda r: any(x[0] == "send" and x[2][0] == "steal" for o in r["obs"] if o != ["disabled"] for x in o[0]))
    corr.finish_incoq("C07")
    model.close()
    out.coverage["rule"] = ("worker side: command streams with steal requests (tails, supersets, duplicates, already-run tests) interleaved at "
                            "lock-section granularity; controller side: worksteal sessions (1-3 workers, 0-13 tests, crashes); non-trivial = a steal "
                            "was answered (worker side) / a steal request was issued (controller side)")


def replay(out, path):
    return system_common.replay(out, path)
