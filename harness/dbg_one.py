import sys, json
sys.path.insert(0, '/verif/harness')
import common, monitors
profile = sys.argv[1]; seed = int(sys.argv[2])
job = {"kind": "online", "seed": seed, "profile": profile, "ext_crash_p": 0.0 if profile == "nocrash" else 0.01}
r = common.run_jobs("drive_sim.py", [job], nproc=1)[0]
print({a: b for a, b in r["cfg"].items() if a not in ("reports", "durs")})
for k, (l, o) in enumerate(zip(r["labels"], r["obs"])):
    print(k, l, o if o == ["disabled"] else (o[0], o[1]))
print(json.dumps(r["summary"], indent=0)[:1500])
for s, d in monitors.run_monitors(r, list(monitors.ALL)): print(s, str(d)[:300])
