#!/bin/sh
# Build the whole Coq development (full .vo) and the extracted runner, offline.
set -e
cd "$(dirname "$0")"
mkdir -p _build evidence/replays
cd coq
coq_makefile -f _CoqProject -o Makefile
timeout 3000 make -j16
cd ..
/venv/bin/python -c "import sys; sys.path.insert(0,'harness'); import common; print(common.build_runner())"
