#!/usr/bin/env python3
"""Regenerates MANIFEST.json from the table below (kept in one place so that the
manifest stays valid while properties are added)."""
import json, os
HERE = os.path.dirname(os.path.abspath(__file__))
BASE_NOTE = ("Trusted: Coq 8.16.1 kernel + vm_compute; no axioms (Print Assumptions parsed each run); "
             "extraction (ExtrOcamlBasic, ExtrOcamlString) cross-checked in-Coq; Python correspondence harness "
             "driving the real xdist classes; see DESIGN.md section 7.")
TECH = 'Coq proof over a hand-written Gallina model + step-by-step model/implementation correspondence (differential) check; monitors on the real classes search for a failing input'
CTL = ("Controller histories: the real DSession/scheduler/WorkerController fed with INJECTED worker messages (an abstract protocol-following worker that can also exit on a keyboard interrupt, "
       "report an internal error, send something undecodable, or die at any point) are compared step by step with Model/CtlRun.v. ")
SYS = ("Whole sessions are simulated from the REAL DSession/scheduler/WorkerController/WorkerInteractor/TestQueue classes and compared step by step with "
       "Model/System.v on online-generated schedules (crashes included); property monitors on the implementation give the concrete failing schedule. ")
CHECKS = {
 "C01": dict(text=SYS + "Proved (all states): every scheduler operation conserves the test indices and sends exactly what it books (load, worksteal, loadscope family); "
             "the worker runs exactly the assigned, not-withdrawn entries in order (C05). SYSTEM level (Proofs/ExactlyOnce.v, --dist load, every configuration and every schedule without worker failure): "
             "no index is ever started twice on any worker (NoDup over pool ++ wires ++ inboxes ++ queues ++ popped entries), whatever starts was popped from its worker's queue and belongs to the agreed collection. "
             "For load without worker failure also (Coupling.v, Completeness.v): the controller's book of every node equals, in order, what the worker side still owes; the controller never raises; "
             "tokens are conserved (a permutation of the collected positions in every state); when the session ends as finished the started tests are a PERMUTATION of the collection: every test started exactly once. "
             "The same four theorems (book coupling, never raises, conservation, exactly-once at a finished end) for worksteal incl. withdrawals in flight (ExactlyOnceSteal.v, CouplingSteal.v, CompletenessSteal.v) and for "
             "loadscope/loadfile/loadgroup (ScopeSystem.v, ScopeCoupling.v, ScopeCompleteness.v): the property is a theorem of the model for all five load-balancing modes, every configuration and every schedule without worker failure.",
             design="5/C01", technique=TECH),
 "C02": dict(text=SYS + "Proved (all states): each scheduling decision leaves the node with >=2 tests, a shutdown, an owed steal answer or an empty pool; tests_finished => shutdown triggered; "
             "a worker with a successor can always step. SYSTEM level for --dist load without worker failure (Progress.v, Termination.v), every configuration and schedule: no stand-off "
             "(some component can always make a useful move while the session has not ended) and TERMINATION (an explicit measure decreases with every useful step; a maximal run has ended). "
             "For load ALSO WITH arbitrary worker crashes (CrashProgress.v, CrashTermination.v): no stand-off for any restart budget, re-queueing, differing collections; termination for every finite budget. "
             "Without failures ALL modes: no stand-off and termination (Progress*.v, Termination*.v; worksteal incl. a bound of 8*tests+1 on the withdrawal requests ever issued). WITH arbitrary crashes: no stand-off for load, worksteal, "
             "the scope family (any collections, any budget) and each (when collections agree; otherwise the recorded finding); termination with crashes (finite budget) for all modes.", design="5/C02", technique=TECH),
 "C03": dict(text=SYS + "Proved (all states/events): one death notice yields at most one crash report, no other event yields one; the crash item is the head of the dead node's book / first "
             "undone test, the rest returns to the pool once, finished units are not re-queued. SYSTEM level for --dist load with arbitrary crashes (CrashTheorems.v, CrashTokens.v): every crash report names the test the dead worker was executing or "
             "about to start; without a re-queueing plugin no test is ever started twice; pool ++ all workers' holdings ++ crashed tests is a permutation of the collection; the same for the scope family (CrashScopeTheorems.v) and worksteal "
             "(CrashStealTokens.v: withdrawals in flight when the victim dies included).", design="5/C03", technique=TECH),
 "C04": dict(text=SYS + "Proved at SYSTEM level for every mode, configuration and schedule (crashes, replacements, workers written off for an undecodable report): decodable(produced(n)) = forwarded(n) ++ in controller queue ++ still to be heard on the wire "
             "(FIFO, once, tagged, nothing undecodable forwarded); for a worker with no undecodable report the full equation. "
             "Content fidelity (pytest's report serialisation), tallies and exit status are compared in real -n runs against the in-process run.", design="5/C04", technique=TECH + "; real pytest runs for the glue"),
 "C05": dict(text="Theorems for every command stream and every interleaving of receiver-thread lock sections with the main thread (Model/Worker.v): run order = assigned not-withdrawn prefix, "
             "announced next item = next test run, None only last, nothing withdrawn was started/announced, completeness at the marker, exact has-items flag. Tied to the real TestQueue/WorkerInteractor "
             "under a cooperative scheduler at lock-section granularity.", design="5/C05", technique=TECH),
 "C06": dict(text=SYS + "Proved over arbitrary strings: the three key functions on well-formed ids (and refutations for ids with '::' in parameters / ']' in group names: known findings); units are built in "
             "collection order, sent whole in one command to one node, re-queued whole after a crash; the worker's half (the hook writing '@group' into a marked test's id) is modelled and composed with the controller's key function (GroupMarkProofs.marked_key_is_group). SYSTEM level (ScopeSystem.v; loadscope/loadfile/loadgroup, no worker failure, every schedule): "
             "one worker per group, the group contiguous on it, in collection order, no test started twice.", design="5/C06", technique=TECH),
 "C07": dict(text="Worker side proved for all interleavings (all-or-nothing, exact reply, order kept, nothing started is withdrawn); controller side proved for all scheduler states (one request outstanding, "
             "tail only, >=2 left, reply processing, dead victim cancels). SYSTEM level (CouplingSteal.v; worksteal, no worker failure, every schedule): requests in flight for a node = 1 iff the marker names it; a request names a non-empty tail "
             "and leaves >= 2; the victim's book = owed ++ on the way back until the reply is processed; processing a reply never fails. " + SYS, design="5/C07", technique=TECH),
 "C08": dict(text=SYS + "Proved (all states): initial node gets run-all+shutdown and is booked everything; crash keeps the remainder other than the crashed test and blocks tests_finished; an equal-spec, "
             "equal-collection replacement inherits exactly the remainder; a disagreeing one inherits nothing. SYSTEM level (EachSystem.v; no worker failure, workers may collect different lists, every schedule): "
             "every worker starts a prefix of its own collection in order, exactly the whole collection when the session ends as finished, and the controller never raises.", design="5/C08", technique=TECH),
 "C09": dict(text=SYS + "Proved (all states/collections): diff None iff equal; initial disagreement => no command, one failed collect report per disagreeing worker; disagreeing replacement is never "
             "registered, gets no tests, is shut down; invariant over every reachable scheduler state: whoever is sent positions registered exactly the reference collection. SYSTEM level (SystemCorollariesColl.v, SystemGaps3*.v; all modes, every schedule with crashes): "
             "all registered collections equal the reference and are what the worker really collected; whoever is sent a run / run-all command is registered with the reference collection after that step. The TEXT of the collection error (report.py): the message the implementation produces for generated pairs of collections is run through a checker written in Gallina (Model/CollDiff.v: reads the sentence naming both workers, the ---/+++ lines, the @@ hunks; applies them to the first collection and demands the second); proved for every pair of id lists and every text (CollDiffProofs.v): an accepted message names both workers, satisfies old + added = new + deleted for every id, puts every id that differs on a -/+ line, invents no id, states true hunk lengths, is an edit script (both collections are one kept list interleaved with the -/+ ids), and 'no message' is accepted exactly for equal collections. difflib's choice of which edit to show is not modelled (translation validation).", design="5/C09", technique=TECH + "; verified checker over the implementation's output for the error text"),
 "C10": dict(text=SYS + CTL + "Proved for EVERY event sequence and scheduler state: replacements started <= max(0, budget); budget <= 0 disables replacement; one death spawns at most one replacement. SYSTEM level (SystemCorollaries.v, all modes, every schedule): the replacements started in a whole run never exceed max(0, budget); budget <= 0 means none. "
             "Known findings: no budget at all when neither -n nor the option is given; a budget exhausted by deaths of workers that held no test ends the run with a success status.", design="5/C10", technique=TECH),
 "C11": dict(text=SYS + CTL + "Proved (every event sequence): the stop reason is sticky, triggers shutdown in the same iteration, is set exactly by the maxfail rule or a worker's stop request; late ready "
             "workers are shut down, late collections ignored, flagged nodes get no work. SYSTEM level (SystemCorollaries.v, SystemGaps2*.v; all modes, every schedule with crashes): the stop flag is sticky; from the step that sets it onwards "
             "NO run / run-all / withdrawal command is sent to ANY worker (true for the deciding step since fix 8ba5861). The simulator runs the real pytest_runtestloop.", design="5/C11", technique=TECH),
 "C12": dict(text=SYS + "Proved (every event sequence): replacement ids are the consecutive next numbers of the group counter: distinct, never reused; SYSTEM level (SystemCorollaries.v, all modes): the ids of a run's replacements are exactly numnodes, numnodes+1, ... Environment variables, fixtures and basetemp are "
             "checked in real -n runs with crashing tests (no model can contain the OS): partial for that half.", design="5/C12", technique=TECH + "; real pytest runs for env/fixtures/tmp dirs"),
 "C13": dict(text="Theorems over the whole option record (Z-valued, arbitrary strings) for each documented rule, about a Gallina model of plugin.pytest_cmdline_main/_is_distribution_mode/pytest_configure, "
             "parse_tx_spec_config, setup_config, looponfail main; tied to the code by differential runs of the real _prepareconfig + hook implementations on generated option combinations (incl. addopts, env var).",
             design="5/C13", technique=TECH),
 "C14": dict(text="Theorems for every importability/constructor oracle: location kept, string text kept, instance arrives as same class or generic warning carrying class name and text, category kept when "
             "rebuildable; refutation for the bare function (hence the fallback, fix 9a94612). Tied to the real serialize/unserialize functions and the real process_from_remote on generated warning kinds.",
             design="5/C14", technique=TECH),
 "C15": dict(text=SYS + "Proved (all states): mark_test_pending puts the index at the FRONT of the pool and adds exactly one index; SYSTEM level (RequeueCount.v, RequeueCountSteal.v; load and worksteal, arbitrary crashes, any number of re-queues): every test is started at most 1 + (times re-queued) times, with the exact account at a finished end; (SystemCorollariesRequeue.v, load and worksteal) the re-queued index is at the front of the pool or handed out first in the same step; monitors check hook-before-publication and dispatch-first on the implementation.",
             design="5/C15", technique=TECH),
 "C16": dict(text=SYS + CTL + "Proved for EVERY event sequence: at most one shutdown command per worker, never a second; every scheduler operation except the initial schedule sends no work to a flagged node "
             "(the initial schedule under 'no node flagged yet'); steal requests name only booked tests; indices stay valid. SYSTEM level (SystemCorollaries*.v, SystemGaps*.v; ALL modes, every schedule with crashes): at most one shutdown per worker in the whole run and it is the LAST command "
             "of the worker's stream (hypothesis 'no undecodable report' for load/scope/each: without it the statement is refuted, recorded finding, Coq witness CtlWitnesses.v); book coupling (what the controller believes outstanding = what the worker owes) for all modes.", design="5/C16", technique=TECH),
 "C17": dict(text=SYS + CTL + "Deaths are injected at every lifecycle point; any controller exception other than the documented 'no active workers' exit, any stuck state and any budget violation is reported with its schedule. "
             "Proofs: SYSTEM level for --dist load (CrashCoupling.v, CrashTheorems.v; with arbitrary undecodable reports too: GarbledCoupling.v, GarbledTheorems.v, no hypothesis but >= 1 worker), ARBITRARY crashes at any moment, replacements, any budget, every schedule: the book coupling invariant extended to dead and replacement workers; "
             "the only exception the controller can end with is the documented 'no active workers' one, which needs a worker that collected a different list; with agreeing collections the controller never raises. "
             "The same for worksteal (CrashSteal*.v), the scope family (CrashScope*.v) and each (CrashEach*.v) — without a re-queueing plugin where mark_test_pending is not implemented (scope, each); "
             "with arbitrary undecodable reports as well for every mode (Garbled*.v): only the documented exception. "
             "For every mode: the restart budget and crash-report theorems (C10, C03) hold for every event sequence incl. events of unknown nodes. Recorded findings (with Coq witnesses where controller-level): internal_error event then exit; written-off worker finishes its queue.", design="5/C17", technique=TECH),
 "C18": dict(text="Model of StatRecorder.check (visit filters, cache bookkeeping, duplicate/nested roots) and of the failure memory, compared with the real classes on a real temp directory with explicit mtimes; "
             "an independent set-difference oracle checks 'changed iff the watched set changed' on every poll. Proved (Proofs/StatRecProofs.v) for every snapshot and ANY root list: a poll reports a change iff the map path->(mtime,size) of watched files differs from the cache "
             "(created, deleted, mtime or size different in either direction), the new cache is the watched set, a second poll on the same snapshot reports nothing, the cache never holds a path twice; plus the failure-memory theorems.",
             design="5/C18", technique=TECH),
 "C19": dict(text="Models of make_reltoroot (lexical paths, '::' selectors, exists oracle), fnmatch matching and HostRSync.filter, and the spec decisions; compared with the real functions on a real temp tree and "
             "generated patterns. Proved (Proofs/RsyncProofs.v, PureProofs.v): local popen never synchronises, non-existing args unchanged, outside roots rejected, first containing root, containment by path components, "
             "selectors preserved ('::' join/split round trip), rewriting formula; the glob matcher is sound and complete for a declarative glob relation, default patterns exclude exactly dot-names/.pyc/.pyo/~, an entry is transferred iff no pattern matches its base name or full path.", design="5/C19", technique=TECH),
}
NOT_YET = {}
def main():
    props = [json.loads(l) for l in open(os.path.join(HERE, "properties.jsonl"))]
    checks = []
    na = []
    for p in props:
        pid = p["id"]
        if pid in CHECKS:
            c = CHECKS[pid]
            checks.append({
                "property_id": pid,
                "quick_cmd": f"./check {pid} --tier quick",
                "thorough_cmd": f"./check {pid} --tier thorough",
                "evidence_file": f"/verif/evidence/{pid}.json",
                "replay_cmd_template": f"./check {pid} --replay {{path}}",
                "engine": "coq-model+correspondence",
                "level_claimed": {"category": "proof", "text": c["text"], "design_ref": "DESIGN.md section " + c["design"]},
                "level_note": c.get("note", BASE_NOTE),
                "technique": c["technique"],
            })
        else:
            na.append({"property_id": pid, "reason": NOT_YET.get(pid, "check not built yet in this revision (work in progress; see DESIGN.md section 5)")})
    m = {
        "version": 1,
        "setup_cmd": "cd /verif && ./setup.sh",
        "hooks": {"guard": "PYTEST_XDIST_VERIF", "enable": "no source hooks: the harness injects fakes from outside (PYTHONPATH=/repo/src); the variable is set by the checks but read by nothing in /repo",
                  "baseline_off_cmd": "cd /repo && /venv/bin/python -m pytest -ra -q -p no:cacheprovider --timeout=900 --continue-on-collection-errors",
                  "source_commits": [], "add_only": True},
        "engines": [{"name": "coq-model+correspondence", "path": "/verif/check", "serves_properties": sorted(CHECKS),
                     "kind_free_text": "Coq 8.16 proofs about hand-written executable Gallina models; models extracted to OCaml and compared with the real implementation classes on generated inputs/schedules; monitors on the implementation search for a concrete failing input"}],
        "checks": checks,
        "notes": "All checks: ./check <id> --tier quick|thorough. Known findings: /verif/known_findings.json.",
        "not_applicable": na,
    }
    json.dump(m, open(os.path.join(HERE, "MANIFEST.json"), "w"), indent=1)
main()
