#!/usr/bin/env python3
"""Regenerates MANIFEST.json from the table below (kept in one place so that the
manifest stays valid while properties are added)."""
import json, os
HERE = os.path.dirname(os.path.abspath(__file__))
BASE_NOTE = ("Trusted: Coq 8.16.1 kernel + vm_compute; no axioms (Print Assumptions parsed each run); "
             "extraction (ExtrOcamlBasic, ExtrOcamlString) cross-checked in-Coq; Python correspondence harness "
             "driving the real xdist classes; see DESIGN.md section 7.")
CHECKS = {
 "C13": dict(text="Theorems over the whole option record (Z-valued, arbitrary strings) for each documented rule, about a hand-written Gallina model of plugin.pytest_cmdline_main/_is_distribution_mode/pytest_configure, parse_tx_spec_config, setup_config, looponfail main; tied to the code by differential runs of the real _prepareconfig + hook implementations on generated option combinations (incl. addopts, env var).",
             design="5/C13", technique="Coq proof over a Gallina model + model/implementation correspondence (differential) check"),
}
NOT_YET = {}
def main():
    props = [json.loads(l) for l in open(os.path.join(HERE, "properties.jsonl"))]
    checks = []
    na = []
    for p in props:
        pid = p["id"]
        if pid in CHECKS:
            c = CHECKS[pid]
            checks.append({
                "property_id": pid,
                "quick_cmd": f"./check {pid} --tier quick",
                "thorough_cmd": f"./check {pid} --tier thorough",
                "evidence_file": f"/verif/evidence/{pid}.json",
                "replay_cmd_template": f"./check {pid} --replay {{path}}",
                "engine": "coq-model+correspondence",
                "level_claimed": {"category": "proof", "text": c["text"], "design_ref": "DESIGN.md section " + c["design"]},
                "level_note": c.get("note", BASE_NOTE),
                "technique": c["technique"],
            })
        else:
            na.append({"property_id": pid, "reason": NOT_YET.get(pid, "check not built yet in this revision (work in progress; see DESIGN.md section 5)")})
    m = {
        "version": 1,
        "setup_cmd": "cd /verif && ./setup.sh",
        "hooks": {"guard": "PYTEST_XDIST_VERIF", "enable": "no source hooks: the harness injects fakes from outside (PYTHONPATH=/repo/src); the variable is set by the checks but read by nothing in /repo",
                  "baseline_off_cmd": "cd /repo && /venv/bin/python -m pytest -ra -q -p no:cacheprovider --timeout=900 --continue-on-collection-errors",
                  "source_commits": [], "add_only": True},
        "engines": [{"name": "coq-model+correspondence", "path": "/verif/check", "serves_properties": sorted(CHECKS),
                     "kind_free_text": "Coq 8.16 proofs about hand-written executable Gallina models; models extracted to OCaml and compared with the real implementation classes on generated inputs/schedules; monitors on the implementation search for a concrete failing input"}],
        "checks": checks,
        "notes": "All checks: ./check <id> --tier quick|thorough. Known findings: /verif/known_findings.json.",
        "not_applicable": na,
    }
    json.dump(m, open(os.path.join(HERE, "MANIFEST.json"), "w"), indent=1)
main()
