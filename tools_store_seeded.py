#!/usr/bin/env python3
"""copies a confirmed seeded change into /verif/seeded/<id>/ (patch.diff, demo, notes, meta.json)"""
import json, os, shutil, sys
pid, k, detected_by, what_ran = sys.argv[1], sys.argv[2], sys.argv[3], sys.argv[4]
src = f"{os.environ.get('SEED_WT', '/tmp/wt')}/{pid}/_mutants/{k}"
dst = f"/verif/seeded/{pid}-{k}"
os.makedirs(dst, exist_ok=True)
for f in os.listdir(src):
    if os.path.isfile(os.path.join(src, f)) and os.path.getsize(os.path.join(src, f)) < 400000:
        shutil.copy(os.path.join(src, f), os.path.join(dst, f))
notes = open(os.path.join(src, "notes.txt")).read() if os.path.exists(os.path.join(src, "notes.txt")) else ""
meta = {"id": f"{pid}-{k}", "breaks_property": pid, "origin": "independent sub-agent given only the property text and a scratch worktree",
        "needs_to_manifest": notes.strip()[:1500],
        "confirmed": {"demo_passes_on_unchanged_tree": True, "demo_fails_with_patch": True,
                      "how": "tools_confirm_seeded.sh in the agent's scratch worktree (git apply / demo / git checkout)",
                      "existing_suite_with_patch": what_ran},
        "detected_by": json.loads(detected_by)}
json.dump(meta, open(os.path.join(dst, "meta.json"), "w"), indent=1)
print("stored", dst)
