#!/bin/sh
# usage: tools_try_mutant.sh <patch.diff> <tier> <Cxx> [Cyy ...]
# applies the patch to a scratch copy of /repo's sources (outside /repo and /verif), runs the given
# checks against it (VERIF_REPO), removes the copy. Development aid for the seeded-change table.
P="$1"; TIER="$2"; shift 2
D=$(mktemp -d /tmp/mut.XXXXXX)
mkdir -p "$D/src" && cp -r /repo/src/xdist "$D/src/" 
( cd "$D" && patch -p1 -s < "$P" ) || { echo "PATCH FAILED"; rm -rf "$D"; exit 2; }
for c in "$@"; do
  out=$(cd /verif && VERIF_EVIDENCE_DIR="$D/evidence" VERIF_REPO="$D" ./check "$c" --tier "$TIER" --no-proofs 2>&1 | grep -E "VIOLATION" | head -3)
  if echo "$out" | grep -q VIOLATION; then
     f=$(echo "$out" | grep VIOLATION | head -1 | sed 's/.*replay=\([^ ]*\).*/\1/')
     sig=$(python3 -c "
import json,sys
d=json.load(open('$f'))
v=d.get('violation')
print((v or {}).get('signature') or d.get('no_longer_checks'))" 2>/dev/null)
     echo "$c: DETECTED  $(echo "$out" | grep -c no-failing-input-found | sed 's/1/(no-failing-input)/;s/0//') $sig"
  else
     echo "$c: missed"
  fi
done
rm -rf "$D"
