#!/usr/bin/env python3
"""tools_set_detected.py <id> <Cxx> <text>: records how a stored seeded change is detected now (development aid)"""
import json, sys
mid, pid, text = sys.argv[1:4]
p = f"/verif/seeded/{mid}/meta.json"
d = json.load(open(p)); d["detected_by"][pid] = text
json.dump(d, open(p, "w"), indent=1)
